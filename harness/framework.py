"""Decision framework shared by every check (DESIGN.md §2.5).

A property module (harness/props/cXX.py) defines

    PID        = "C04"
    LEAN_MODS  = ["SwcVerif.Props.C04"]          # property-theorem modules (built on every run)
    THEOREMS   = ["C04.traverse_eq_spec", ...]   # audited with `#print axioms`
    SUITES     = [Suite(), ...]                  # correspondence + oracle suites
    TRANSLATE  = True/False                      # whether Gen/ has to be regenerated first
    LEVEL_NOTE / ASSUMPTIONS / TRUSTED

and this module does the rest: build, audit, correspondence, oracle, failing-input search,
known findings, evidence, replay, exit code.
"""
from __future__ import annotations

import fcntl
import hashlib
import json
import os
import random
import re
import signal
import subprocess
import sys
import time
import traceback
from pathlib import Path

VERIF = Path(__file__).resolve().parent.parent
LEAN = VERIF / "lean"
REPO = Path(os.environ.get("SWCGEOM_REPO", "/repo"))
DRIVER = LEAN / ".lake" / "build" / "bin" / "driver"
ALLOWED_AXIOMS = {"propext", "Classical.choice", "Quot.sound"}
FORBIDDEN = re.compile(
    r"\b(sorry|admit|native_decide|bv_decide|implemented_by|unsafe)\b|^\s*axiom\s|maxHeartbeats\s+0\b"
)


class CaseTimeout(Exception):
    pass


class Suite:
    """One correspondence + oracle suite.  Subclasses override what they need."""

    name = "suite"
    #: per-case wall clock limit for the implementation (seconds)
    case_timeout = 20.0

    def cases(self, rng: random.Random, tier: str, widen: bool):
        return []

    def run(self, case):
        """Execute the real library on `case`; return a JSON-serialisable canonical result."""
        raise NotImplementedError

    def lines(self, case, res):
        """[(protocol line for the Lean driver, expected output computed from the impl)]"""
        return []

    def oracle(self, case, res):
        """[(finding-key, message)] — the property's conclusion evaluated on impl I/O."""
        return []

    def nontrivial(self, case, res) -> bool:
        return True

    def klass(self, case, res) -> str:
        return case.get("class", "-") if isinstance(case, dict) else "-"


# ----------------------------------------------------------------------------- lean side

def _lock():
    f = open(LEAN / ".build.lock", "w")
    fcntl.flock(f, fcntl.LOCK_EX)
    return f


def lake_build(targets, timeout=3000):
    """Build targets under a lock.  Returns (ok, output)."""
    lk = _lock()
    try:
        p = subprocess.run(
            ["lake", "build", *targets], cwd=LEAN, capture_output=True, text=True, timeout=timeout
        )
        return p.returncode == 0, p.stdout + p.stderr
    finally:
        lk.close()


def _decls(path: Path):
    out = []
    ns = []
    for n, line in enumerate(path.read_text().splitlines(), 1):
        m = re.match(r"\s*namespace\s+(\S+)", line)
        if m:
            ns.append(m.group(1))
        m = re.match(r"\s*end\s+(\S+)\s*$", line)
        if m and ns and ns[-1] == m.group(1):
            ns.pop()
        m = re.match(r"\s*(?:private\s+|protected\s+)?(?:theorem|lemma|def|example|instance|abbrev)\s+([^\s:({\[]+)?", line)
        if m:
            nm = m.group(1) or "example"
            out.append((n, ".".join(ns + [nm])))
    return out


def broken_decls(build_output: str):
    """Map `error: File.lean:L:C` messages to the enclosing declaration."""
    res = []
    for m in re.finditer(r"error: (\S+?\.lean):(\d+):(\d+):\s*(.*)", build_output):
        f, line, msg = LEAN / m.group(1), int(m.group(2)), m.group(4)
        name = "?"
        if f.exists():
            for n, nm in _decls(f):
                if n <= line:
                    name = nm
        item = {"file": m.group(1), "line": line, "decl": name, "msg": msg[:200]}
        if item not in res:
            res.append(item)
    if not res and "error" in build_output:
        res.append({"file": "?", "line": 0, "decl": "?", "msg": build_output[-400:]})
    return res


def _closure(mods, with_driver=True):
    """source files of the project-local import closure of `mods` (+ the driver and what it imports, unless `with_driver=False`)"""
    seen, todo = {}, list(mods) + (["Driver"] if with_driver else [])
    while todo:
        m = todo.pop()
        if m in seen:
            continue
        f = LEAN / (m.replace(".", "/") + ".lean")
        if not f.exists():
            continue
        seen[m] = f
        for line in f.read_text().splitlines():
            mm = re.match(r"\s*import\s+(SwcVerif\.\S+)", line)
            if mm:
                todo.append(mm.group(1))
    return [seen[k] for k in sorted(seen)]


def audit(pid: str, mods, theorems):
    """`#print axioms` for every property theorem + forbidden-token grep.
    Returns (axioms: {thm: [axioms]}, failures: [str])."""
    failures = []
    for f in _closure(mods):
        incomment = False
        for n, line in enumerate(f.read_text().splitlines(), 1):
            code = line
            # strip comments (block comments tracked coarsely, line comments exactly)
            if incomment:
                if "-/" in code:
                    code = code.split("-/", 1)[1]
                    incomment = False
                else:
                    continue
            while "/-" in code:
                pre, rest = code.split("/-", 1)
                if "-/" in rest:
                    code = pre + " " + rest.split("-/", 1)[1]
                else:
                    code = pre
                    incomment = True
                    break
            code = code.split("--", 1)[0]
            code = re.sub(r'"[^"]*"', '""', code)
            if FORBIDDEN.search(code):
                failures.append(f"forbidden token in {f.relative_to(LEAN)}:{n}: {line.strip()[:80]}")
    src = "".join(f"import {m}\n" for m in mods) + "".join(f"#print axioms {t}\n" for t in theorems)
    adir = LEAN / "SwcVerif" / "Audit"
    adir.mkdir(exist_ok=True)
    af = adir / f"{pid}.lean"
    if not af.exists() or af.read_text() != src:
        af.write_text(src)
    p = subprocess.run(["lake", "env", "lean", str(af)], cwd=LEAN, capture_output=True, text=True, timeout=1200)
    out = p.stdout + p.stderr
    axioms = {}
    for t in theorems:
        m = re.search(r"'" + re.escape(t) + r"' depends on axioms: \[([^\]]*)\]", out, re.S)
        if m:
            axs = [a.strip() for a in m.group(1).replace("\n", " ").split(",") if a.strip()]
            axioms[t] = axs
            bad = [a for a in axs if a not in ALLOWED_AXIOMS]
            if bad:
                failures.append(f"theorem {t} depends on disallowed axioms {bad}")
        elif re.search(r"'" + re.escape(t) + r"' does not depend on any axioms", out):
            axioms[t] = []
        else:
            failures.append(f"theorem {t} not found / not checked by the audit")
    if p.returncode != 0 and not failures:
        failures.append("audit file failed: " + out[-300:])
    return axioms, failures


_driver_proc_ok = None


def run_driver(lines, timeout=1800):
    """Feed protocol lines to the compiled model driver; one output line per input line."""
    if not lines:
        return []
    for ln in lines:
        assert "\n" not in ln
    if DRIVER.exists():
        cmd = [str(DRIVER)]
    else:
        cmd = ["lake", "env", "lean", "--run", "Driver.lean"]
    p = subprocess.run(cmd, cwd=LEAN, input="\n".join(lines) + "\n", capture_output=True, text=True, timeout=timeout)
    out = p.stdout.split("\n")
    if out and out[-1] == "":
        out.pop()
    if len(out) != len(lines):
        out = out + [f"driver-error rc={p.returncode} {p.stderr[-200:]!r}"] * (len(lines) - len(out))
    return out


# ----------------------------------------------------------------------------- known findings

def load_known():
    f = VERIF / "known_findings.json"
    if not f.exists():
        return []
    return json.loads(f.read_text()).get("findings", [])


# ----------------------------------------------------------------------------- main flow

def _alarm(signum, frame):
    raise CaseTimeout()


def run_case(suite: Suite, case):
    signal.signal(signal.SIGALRM, _alarm)
    signal.setitimer(signal.ITIMER_REAL, suite.case_timeout)
    try:
        return suite.run(case)
    except CaseTimeout:
        return {"exc": "Timeout", "msg": f"no result within {suite.case_timeout}s"}
    except RecursionError as e:
        return {"exc": "RecursionError", "msg": str(e)[:200]}
    except Exception as e:  # noqa: BLE001 - the oracle decides whether raising is a violation
        return {"exc": type(e).__name__, "msg": str(e)[:300], "tb": traceback.format_exc()[-1200:]}
    finally:
        signal.setitimer(signal.ITIMER_REAL, 0)


def same_output(got: str, exp) -> bool:
    """exact text equality, or numeric closeness when `exp` is {"approx": [...], "rtol":, "atol":}"""
    if isinstance(exp, str):
        return got == exp
    if callable(exp):
        return exp(got)
    try:
        vals = [float(x) for x in got.split()]
    except ValueError:
        return False
    want = exp["approx"]
    if len(vals) != len(want):
        return False
    rtol, atol = exp.get("rtol", 1e-9), exp.get("atol", 1e-12)
    return all(abs(a - b) <= atol + rtol * max(abs(a), abs(b)) for a, b in zip(vals, want))


def canon(obj) -> str:
    return json.dumps(obj, sort_keys=True, default=str)


def main(mod, argv=None):
    import argparse

    ap = argparse.ArgumentParser()
    ap.add_argument("--tier", default=os.environ.get("VERIF_TIER", "quick"))
    ap.add_argument("--replay", default=None)
    ap.add_argument("--no-build", action="store_true")
    args = ap.parse_args(argv)
    tier = args.tier if args.tier in ("quick", "thorough") else "quick"
    seed = int(os.environ.get("VERIF_SEED", "0") or 0)
    pid = mod.PID
    t0 = time.time()
    os.chdir(VERIF)
    # overall watchdog: whatever hangs (a comparator, a driver, the build), the check ends with exit code 2 — never a VIOLATION
    import threading

    limit = float(os.environ.get("VERIF_MAX_SECONDS", "2400" if tier == "quick" else "14400"))

    def _giveup():
        print(f"TIMEOUT in machinery: {pid} --tier {tier} exceeded {limit:.0f}s (not a violation)", file=sys.stderr, flush=True)
        os._exit(2)

    wd = threading.Timer(limit, _giveup)
    wd.daemon = True
    wd.start()
    try:
        rc = _main(mod, pid, tier, seed, args, t0)
    except subprocess.TimeoutExpired as e:
        print(f"TIMEOUT in machinery: {e}", file=sys.stderr)
        rc = 2
    except Exception:  # noqa: BLE001
        traceback.print_exc()
        print("INTERNAL ERROR of the checking machinery (not a violation)", file=sys.stderr)
        rc = 2
    sys.exit(rc)


def _main(mod, pid, tier, seed, args, t0):
    suites = mod.SUITES
    if args.replay:
        return _replay(mod, args.replay)

    T, P, A, K, F = [], [], [], [], []
    axioms = {}
    leanchecked = []
    # 1. translator
    if getattr(mod, "TRANSLATE", False):
        from harness import translate

        # a source shape the translator does not know (any exception inside it) is a TRANSLATOR FAILURE, handled like a broken proof
        # (§2.5): the search for a failing input still runs; it is never an internal error of the check
        try:
            T = translate.regenerate()
        except Exception as e:  # noqa: BLE001
            T = [f"translate: the source has a shape the arithmetic translator cannot read ({type(e).__name__}: {str(e)[:200]})"]
    if getattr(mod, "TRANSLATE_ALGO", None):
        from harness import translate_algo

        # imperative translator (DESIGN.md §2.2b): only the generated modules this property is stated about
        try:
            # … and every generated module the property's theorems import, directly or through another generated module (a theorem must
            # never be checked against a stale translation): the project-local import closure of LEAN_MODS, without the driver
            dep = {f.stem for f in _closure(mod.LEAN_MODS, with_driver=False) if f.parent.name == "Gen" and f.stem.startswith("Algo")}
            T = T + translate_algo.regenerate(sorted(set(mod.TRANSLATE_ALGO) | dep))
        except Exception as e:  # noqa: BLE001
            T = T + [f"translate_algo: the source has a shape the imperative translator cannot read ({type(e).__name__}: {str(e)[:200]})"]
    # 2. build property theorems (+ driver)
    if not args.no_build:
        ok, out = lake_build(list(mod.LEAN_MODS))
        if not ok:
            P = broken_decls(out)
        okd, outd = lake_build(["driver"])
        if not okd:
            # the driver links every model incl. the generated ones; a failure there concerns only the
            # properties that depend on the generated files (the stale binary keeps serving the others)
            if getattr(mod, "TRANSLATE", False) or getattr(mod, "TRANSLATE_ALGO", None):
                # only what lies in this property's own import closure (or is the driver-side runner of one of its generated
                # modules) is attributed to it; other generated files are another property's business
                mine = {str(f.relative_to(LEAN)) for f in _closure(mod.LEAN_MODS, with_driver=False)} | set(getattr(mod, "DRIVER_FILES", []))
                P = P + [d for d in broken_decls(outd) if d not in P and (d["file"] in mine or d["file"] == "?")]
                if not any(d["file"] in mine or d["file"] == "?" for d in broken_decls(outd)):
                    print("warning: driver did not rebuild (a generated file of another property?); using the previous binary", file=sys.stderr)
            else:
                print("warning: driver did not rebuild (unrelated generated file?); using the previous binary", file=sys.stderr)
        # 3. audit
        axioms, A = audit(pid, mod.LEAN_MODS, mod.THEOREMS) if ok else ({}, [])
        # thorough tier: Lean's independent re-checker replays the compiled property modules in a fresh kernel
        if ok and tier == "thorough":
            for m in mod.LEAN_MODS:
                pr = subprocess.run(["lake", "env", "leanchecker", m], cwd=LEAN, capture_output=True, text=True, timeout=3000)
                o = pr.stdout + pr.stderr
                if pr.returncode != 0 or "uncaught exception" in o or "error" in o.lower():
                    A.append(f"leanchecker rejected {m}: {o[-300:]}")
                else:
                    leanchecked.append(m)
    driver_ok = DRIVER.exists()

    known = [k for k in load_known() if k.get("property") == pid]
    known_keys = {k["key"] for k in known if k.get("status") == "known"}

    stats = {"evaluations": 0, "distinct": set(), "nontrivial": set(), "classes": {}, "errors": {},
             "corr_lines": 0, "suites": {}}
    samples = []

    def explore(widen: bool):
        for si, suite in enumerate(suites):
            rng = random.Random(f"{seed}/{pid}/{suite.name}/{int(widen)}")
            cases = []
            cdir = VERIF / "corpus" / pid
            if cdir.is_dir() and not widen:
                for f in sorted(cdir.glob("*.json")):
                    c = json.loads(f.read_text())
                    if c.get("suite") == suite.name:
                        cases.append(c["case"])
            ncorpus = len(cases)
            cases.extend(suite.cases(rng, tier, widen))
            batch_lines, batch_meta = [], []
            sstat = stats["suites"].setdefault(suite.name, {"cases": 0, "corpus": ncorpus, "lines": 0, "disagreements": 0, "findings": 0})
            n_timeouts = 0
            for case in cases:
                if n_timeouts >= 4:
                    break  # the implementation hangs on this family; the findings so far are enough for the decision
                res = run_case(suite, case)
                if isinstance(res, dict) and res.get("exc") == "Timeout":
                    n_timeouts += 1
                stats["evaluations"] += 1
                sstat["cases"] += 1
                h = hashlib.sha1((suite.name + canon(case)).encode()).hexdigest()
                stats["distinct"].add(h)
                try:
                    nt = suite.nontrivial(case, res)
                except Exception:  # noqa: BLE001
                    nt = False
                if nt:
                    stats["nontrivial"].add(h)
                kl = suite.name + ":" + str(suite.klass(case, res))
                stats["classes"][kl] = stats["classes"].get(kl, 0) + 1
                if isinstance(res, dict) and "exc" in res:
                    stats["errors"][res["exc"]] = stats["errors"].get(res["exc"], 0) + 1
                if len(samples) < 6 and (nt or len(samples) < 2) and sum(1 for s in samples if s["suite"] == suite.name) < 2:
                    samples.append({"suite": suite.name, "case": _short(case), "impl": _short(res)})
                for key, msg in suite.oracle(case, res):
                    sstat["findings"] += 1
                    F.append({"suite": suite.name, "key": key, "msg": msg, "case": case, "impl": res})
                try:
                    ls = suite.lines(case, res)
                except Exception as e:  # noqa: BLE001
                    ls = []
                    K.append({"suite": suite.name, "case": case, "line": "<lines() raised>", "model": "", "impl": repr(e)})
                for line, exp in ls:
                    batch_lines.append(line)
                    batch_meta.append((case, exp, res))
            # second pass: a sample of the same cases again, after everything else of the suite has run in this process — a result
            # is a function of the input, not of what the library was asked before (caches, class-level state, mutated defaults)
            again = [c for c in cases if not (isinstance(c, dict) and c.get("big"))]
            rng2 = random.Random(f"{seed}/{pid}/{suite.name}/again")
            rng2.shuffle(again)
            for case in again[: (getattr(suite, "repeat", 25) if tier == "quick" else 4 * getattr(suite, "repeat", 25))]:
                if n_timeouts >= 4:
                    break
                res = run_case(suite, case)
                if isinstance(res, dict) and res.get("exc") == "Timeout":
                    n_timeouts += 1
                stats["evaluations"] += 1
                sstat["second_pass"] = sstat.get("second_pass", 0) + 1
                for key, msg in suite.oracle(case, res):
                    sstat["findings"] += 1
                    F.append({"suite": suite.name, "key": key, "msg": "(second evaluation of this case in the same process) " + msg, "case": case, "impl": res})
            if batch_lines and driver_ok:
                outs = run_driver(batch_lines)
                sstat["lines"] += len(batch_lines)
                stats["corr_lines"] += len(batch_lines)
                for line, got, (case, exp, res) in zip(batch_lines, outs, batch_meta):
                    if not same_output(got, exp):
                        sstat["disagreements"] += 1
                        if len(K) < 50:
                            K.append({"suite": suite.name, "case": case, "line": line[:2000], "model": got[:2000], "impl": str(exp)[:2000]})
            elif batch_lines and not driver_ok:
                K.append({"suite": suite.name, "case": None, "line": "<driver not built>", "model": "", "impl": ""})

    explore(False)
    broken = bool(T or P or A or K)
    newF = [f for f in F if f["key"] not in known_keys]
    if broken and not newF:
        # proof / correspondence broke but no failing input yet: widen the search
        explore(True)
        newF = [f for f in F if f["key"] not in known_keys]

    # ---- decision
    rc = 0
    lines_out = []
    replay_path = None
    if newF:
        f = _smallest(newF)
        replay_path = _write_replay(pid, tier, seed, {
            "property": pid, "kind": "failing-input", "suite": f["suite"], "finding": f["key"], "message": f["msg"],
            "case": f["case"], "impl": f["impl"],
            "also_broken": {"translator": T, "proofs": P, "audit": A, "correspondence": K[:3]},
            "n_findings": len(newF), "distinct_keys": sorted({x["key"] for x in newF}),
        })
        lines_out.append(f"VIOLATION property={pid} replay={replay_path}")
        rc = 1
    elif broken:
        replay_path = _write_replay(pid, tier, seed, {
            "property": pid, "kind": "no-failing-input-found",
            "no_longer_checks": {"translator": T, "theorems": P, "audit": A, "correspondence": K[:5]},
            "note": "the property is no longer shown to hold: a proof obligation or the model/implementation "
                    "correspondence broke; the widened search found no input on which the implementation violates it",
        })
        lines_out.append(f"VIOLATION property={pid} replay={replay_path} no-failing-input-found")
        rc = 1
    seen_known = sorted({f["key"] for f in F if f["key"] in known_keys})
    for k in known:
        if k.get("status") == "known" and k["key"] in seen_known:
            lines_out.append(f"KNOWN-FINDING: property={pid} {k['key']}: {k.get('what', '')}")

    # ---- evidence
    n_thm = len(mod.THEOREMS)
    n_suites = len(suites)
    thm_ok = 0 if (P or A or T) else n_thm
    broken_suites = {k["suite"] for k in K}
    suites_ok = n_suites - len(broken_suites)
    ev = {
        "property_id": pid, "tier": tier, "seed": seed, "level": "proof",
        "coverage": {
            "obligations": n_thm + n_suites,
            "discharged": thm_ok + suites_ok,
            "checker_cmd": f"cd lean && lake build {' '.join(mod.LEAN_MODS)} && lake env lean SwcVerif/Audit/{pid}.lean   (kernel-checked theorems); "
                           f"correspondence: ./check {pid} --tier {tier}",
            "trusted_base": list(getattr(mod, "TRUSTED", [])) + [
                "Lean 4.33 kernel", "axioms: propext, Classical.choice, Quot.sound only (audited by #print axioms on every run)",
                "correspondence harness + generators (agreement shown only on generated inputs)"],
            "theorems": [{"name": t, "axioms": axioms.get(t)} for t in mod.THEOREMS],
            "partial_theorems": [t for t in mod.THEOREMS if t.endswith("_partial")],
            "leanchecker_replayed": leanchecked,
            "evaluations": stats["evaluations"],
            "distinct_nontrivial": len(stats["nontrivial"]),
            "distinct": len(stats["distinct"]),
            "rule": getattr(mod, "RULE", "cases drawn from the seeded generators of the suites; distinct by canonical JSON; non-trivial per suite rule"),
            "samples": samples or [{"note": "no generated cases"}],
            "correspondence_lines_compared": stats["corr_lines"],
            "disagreements_checked": len(K),
            "suites": stats["suites"],
            "distribution": dict(sorted(stats["classes"].items())),
            "impl_exceptions": stats["errors"],
            "translator_failures": T, "broken_theorems": P, "audit_failures": A,
            "known_findings_met": seen_known,
        },
        "assumptions": list(getattr(mod, "ASSUMPTIONS", [])),
        "wall_s": round(time.time() - t0, 2),
        "violations": len(newF) + (1 if (broken and not newF) else 0),
    }
    (VERIF / "evidence").mkdir(exist_ok=True)
    (VERIF / "evidence" / f"{pid}.json").write_text(json.dumps(ev, indent=1, default=str) + "\n")
    for l in lines_out:
        print(l)
    print(f"[{pid}] tier={tier} seed={seed} theorems={thm_ok}/{n_thm} suites_ok={suites_ok}/{n_suites} cases={stats['evaluations']} "
          f"nontrivial={len(stats['nontrivial'])} corr_lines={stats['corr_lines']} disagreements={len(K)} findings={len(F)} "
          f"new={len(newF)} wall={ev['wall_s']}s", file=sys.stderr)
    if P:
        print("broken proof obligations:", json.dumps(P[:5]), file=sys.stderr)
    if K:
        print("first disagreement:", json.dumps(K[0], default=str)[:1500], file=sys.stderr)
    if A or T:
        print("audit/translator:", A[:3], T[:3], file=sys.stderr)
    return rc


def _short(x, n=600):
    s = canon(x)
    return json.loads(s) if len(s) <= n else s[:n] + "…"


def _size(case):
    return len(canon(case))


def _smallest(fs):
    return min(fs, key=lambda f: _size(f["case"]))


def _write_replay(pid, tier, seed, obj):
    d = VERIF / "replays"
    d.mkdir(exist_ok=True)
    p = d / f"{pid}_{tier}_{seed}.json"
    p.write_text(json.dumps(obj, indent=1, default=str) + "\n")
    return str(p.relative_to(VERIF))


def _replay(mod, path):
    obj = json.loads(Path(path).read_text())
    if obj.get("kind") != "failing-input":
        print(json.dumps(obj, indent=1))
        print("replay: nothing to execute (no failing input was found); rebuild with `cd lean && lake build` to see the broken obligation")
        return 0
    suite = next(s for s in mod.SUITES if s.name == obj["suite"])
    res = run_case(suite, obj["case"])
    fs = suite.oracle(obj["case"], res)
    print("case:", canon(obj["case"])[:3000])
    print("impl now:", canon(res)[:3000])
    ls = suite.lines(obj["case"], res)
    if ls and DRIVER.exists():
        outs = run_driver([l for l, _ in ls])
        for (l, e), o in zip(ls, outs):
            print("model:", o[:1500])
            print("impl :", (e if isinstance(e, str) else ("<predicate>" if callable(e) else canon(e)))[:1500], "" if same_output(o, e) else "   <-- differs")
    for k, m in fs:
        print(f"oracle: VIOLATED [{k}] {m}")
    if not fs:
        print("oracle: property holds on this input now")
    return 1 if fs else 0
