#!/bin/bash
# development helper: ./harness/seedtry.sh <patch.diff> C04 [C05 ...]
# applies a seeded change to a scratch worktree (/tmp/clean_repo, a worktree of /repo's HEAD), runs the given
# checks against THAT tree (SWCGEOM_REPO + PYTHONPATH), and reverts.  /repo itself is not touched.  The recorded
# evaluation of a seed is always harness/seedeval.py (patch applied to /repo, checked, undone).
set -u
wt=/tmp/clean_repo
[ -d $wt ] || git -C /repo worktree add --detach $wt HEAD -q
diff="$1"; shift
git -C $wt checkout -q -- . && git -C $wt apply "$diff" || { echo "patch does not apply"; exit 3; }
cd "$(dirname "$0")/.."
for c in "$@"; do
  SWCGEOM_REPO=$wt PYTHONPATH=$wt ./check $c --tier ${TIER:-quick} 2>&1 | grep -E "VIOLATION|^\[C|KNOWN" | cut -c1-400
done
git -C $wt checkout -q -- .
