# C16 (T14 `resample`): swcgeom/transforms/branch.py — BranchLinearResampler.resample, BranchIsometricResampler.resample,
# BranchConvSmoother.__call__  ->  Gen/AlgoResample.lean, over a numeric type parameter `K` (run at Rat by the driver).
#
# New constructs (GENERAL numpy / scipy idioms on float arrays; their meaning is lean/SwcVerif/Model/PyResample.lean), added through the
# extension hooks.  `K` ranges over the numeric type parameters of the function being translated (`tr.num`); the operations a float type
# has beyond `+ - * < ≤` (true division, float(int), ceil) come from the structure `Py.Fld K`, which a spec using them declares as the
# parameter `fparams=["(F : Py.Fld K)"]` (a local instance in the generated definitions).
#
#   int literal where a float is expected        (0 : K), (1 : K), Py.Fld.ofInt c
#   [e, …] where a float array is expected        elements translated as floats
#   a / b  (float scalars)                        Py.fdiv a b            (b = 0 raises: no inf / nan in K)
#   a / b  (1-d float arrays)                     Py.divArr a b
#   int(np.ceil(e))                               Py.Fld.ceil e : Int
#   np.cumsum(a)  (float array)                   Py.cumsumK a
#   np.insert(a, i, x)                            Py.npInsert a i x
#   np.concatenate([a, b, …])  (1-d)              a ++ b ++ …
#   np.linspace(0, stop, n)                       Py.linspace0 stop n
#   np.arange(0, stop, step)  (floats)            Py.arange0 stop step
#   np.interp(x, xp, fp)                          Py.interp x xp fp
#   m[:, j]  (2-d)                                Py.col m j
#   np.stack([c0, c1, …], axis=1)  (1-d arrays)   Py.stack1 [c0, c1, …]
#   m.T  (2-d)                                    Py.transpose2 m
#   np.zeros/ones((r, k), dtype=np.float32|64)    Py.full2 r k 0|1
#   signal.convolve(a, w, mode="same")            Py.convolveSame a w
#   m[:, :k] = A  (2-d A)                         Py.setColBlock m k A
#   m[:, j] = a   (1-d a)                         Py.setCol m j a
#   A[lo:hi] = b  (1-d float array A, constant or absent bounds; A a variable or a dictionary entry D[key])   Py.setSlice A lo hi b
MODULE_MODEL_IMPORTS["AlgoResample"] = ["PyResample"]


def _rs_is_arr(t, tr, depth=1):
    for _ in range(depth):
        if not (isinstance(t, tuple) and t[0] == "List"):
            return False
        t = t[1]
    return t in tr.num


def _rs_num_of(want, tr):
    w = want
    while isinstance(w, tuple) and w[0] == "List":
        w = w[1]
    return w if w in tr.num else None


def _rs_float_const(tr, e, K):
    if isinstance(e, ast.Constant) and isinstance(e.value, int) and not isinstance(e.value, bool):
        return f"({e.value} : {K})" if e.value in (0, 1) else f"(Py.Fld.ofInt ({e.value} : Int) : {K})"
    return None


def _rs_float(tr, e, K):
    """translate `e` as a float scalar of type K (an int literal is that float)"""
    c = _rs_float_const(tr, e, K)
    if c is not None:
        return [], c, K
    return tr.tr(e, K)


def _rs_const_bound(b):
    """a slice bound that is absent or an int literal -> lean `Option Int` text, else None"""
    if b is None:
        return "(none : Option Int)"
    try:
        v = ast.literal_eval(b)
    except (ValueError, SyntaxError):
        return None
    if isinstance(v, int) and not isinstance(v, bool):
        return f"(some ({v} : Int))"
    return None


def _rs_expr(tr, e, want):
    K = _rs_num_of(want, tr)
    # --- literals in float context
    if want in tr.num:
        c = _rs_float_const(tr, e, want)
        if c is not None:
            return [], c, want
    if isinstance(e, ast.List) and e.elts and isinstance(want, tuple) and want[0] == "List" and want[1] in tr.num:
        steps, codes = [], []
        for x in e.elts:
            s, c, t = _rs_float(tr, x, want[1])
            if t != want[1]:
                return None
            steps += s; codes.append(c)
        return steps, "[" + ", ".join(codes) + "]", want
    # --- true division
    if isinstance(e, ast.BinOp) and isinstance(e.op, ast.Div):
        s1, a, ta = tr.tr(e.left); s2, b, tb = tr.tr(e.right)
        if ta in tr.num and tb == ta:
            n = tr.bindname()
            return s1 + s2 + [f"Py.bind (Py.fdiv {a} {b}) fun {n} =>"], n, ta
        if _rs_is_arr(ta, tr) and tb == ta:
            n = tr.bindname()
            return s1 + s2 + [f"Py.bind (Py.divArr {a} {b}) fun {n} =>"], n, ta
        return None
    # --- m.T
    if isinstance(e, ast.Attribute) and e.attr == "T":
        s0, c, t = tr.tr(e.value, want)
        if isinstance(t, tuple) and t[0] == "List" and isinstance(t[1], tuple) and t[1][0] == "List":
            n = tr.bindname()
            return s0 + [f"Py.bind (Py.transpose2 {c}) fun {n} =>"], n, t
        return None
    # --- m[:, j]
    if (isinstance(e, ast.Subscript) and isinstance(e.slice, ast.Tuple) and len(e.slice.elts) == 2 and is_full_slice(e.slice.elts[0])
            and not isinstance(e.slice.elts[1], ast.Slice) and not (isinstance(e.slice.elts[1], ast.Constant) and e.slice.elts[1].value is None)):
        s0, m, tm = tr.tr(e.value)
        if isinstance(tm, tuple) and tm[0] == "List" and isinstance(tm[1], tuple) and tm[1][0] == "List":
            s1, j, tj = tr.tr(e.slice.elts[1])
            if tj == "Int":
                n = tr.bindname()
                return s0 + s1 + [f"Py.bind (Py.col {m} {j}) fun {n} =>"], n, tm[1]
        return None
    if not isinstance(e, ast.Call):
        return None
    f = ast.unparse(e.func)
    args = e.args
    kw = {k.arg: k.value for k in e.keywords}
    if f == "int" and len(args) == 1 and not kw and isinstance(args[0], ast.Call) and ast.unparse(args[0].func) == "np.ceil" and len(args[0].args) == 1:
        s0, c, t = tr.tr(args[0].args[0])
        if t in tr.num:
            return s0, f"(Py.Fld.ceil {c})", "Int"
        return None
    if f == "np.cumsum" and len(args) == 1 and not kw:
        s0, c, t = tr.tr(args[0], want)
        if _rs_is_arr(t, tr):
            return s0, f"(Py.cumsumK {c})", t
        return None
    if f == "np.insert" and len(args) == 3 and not kw:
        s0, a, ta = tr.tr(args[0], want)
        if _rs_is_arr(ta, tr):
            s1, i, ti = tr.tr(args[1]); s2, x, tx = _rs_float(tr, args[2], ta[1])
            if ti == "Int" and tx == ta[1]:
                n = tr.bindname()
                return s0 + s1 + s2 + [f"Py.bind (Py.npInsert {a} {i} {x}) fun {n} =>"], n, ta
        return None
    if f == "np.concatenate" and len(args) == 1 and not kw and isinstance(args[0], ast.List) and args[0].elts and K is not None:
        steps, codes = [], []
        for x in args[0].elts:
            s, c, t = tr.tr(x, ("List", K))
            if t != ("List", K):
                return None
            steps += s; codes.append(c)
        return steps, "(" + " ++ ".join(codes) + ")", ("List", K)
    if f == "np.linspace" and len(args) == 3 and not kw and isinstance(args[0], ast.Constant) and args[0].value == 0 and not isinstance(args[0].value, bool):
        s1, b, tb = tr.tr(args[1]); s2, n_, tn = tr.tr(args[2])
        if tb in tr.num and tn == "Int":
            n = tr.bindname()
            return s1 + s2 + [f"Py.bind (Py.linspace0 {b} {n_}) fun {n} =>"], n, ("List", tb)
        return None
    if f == "np.arange" and len(args) == 3 and not kw and isinstance(args[0], ast.Constant) and args[0].value == 0 and not isinstance(args[0].value, bool):
        s1, b, tb = tr.tr(args[1]); s2, d, td = tr.tr(args[2])
        if tb in tr.num and td == tb:
            n = tr.bindname()
            return s1 + s2 + [f"Py.bind (Py.arange0 {b} {d}) fun {n} =>"], n, ("List", tb)
        return None
    if f == "np.interp" and len(args) == 3 and not kw:
        s0, x, tx = tr.tr(args[0]); s1, xp, txp = tr.tr(args[1]); s2, fp, tfp = tr.tr(args[2])
        if _rs_is_arr(tx, tr) and txp == tx and tfp == tx:
            n = tr.bindname()
            return s0 + s1 + s2 + [f"Py.bind (Py.interp {x} {xp} {fp}) fun {n} =>"], n, tx
        return None
    if f == "np.stack" and len(args) == 1 and set(kw) == {"axis"} and isinstance(kw["axis"], ast.Constant) and kw["axis"].value == 1 \
            and isinstance(args[0], ast.List) and args[0].elts:
        steps, codes, ty = [], [], None
        for x in args[0].elts:
            s, c, t = tr.tr(x)
            if not _rs_is_arr(t, tr) or (ty is not None and t != ty):
                return None
            ty = t; steps += s; codes.append(c)
        n = tr.bindname()
        return steps + [f"Py.bind (Py.stack1 [{', '.join(codes)}]) fun {n} =>"], n, ("List", ty)
    if f in ("np.zeros", "np.ones") and len(args) == 1 and set(kw) == {"dtype"} and ast.unparse(kw["dtype"]) in ("np.float32", "np.float64", "float") \
            and isinstance(args[0], ast.Tuple) and len(args[0].elts) == 2 and K is not None:
        s0, r, t0 = tr.tr(args[0].elts[0]); s1, k, t1 = tr.tr(args[0].elts[1])
        if t0 == "Int" and t1 == "Int":
            n = tr.bindname()
            return s0 + s1 + [f"Py.bind (Py.full2 {r} {k} ({1 if f == 'np.ones' else 0} : {K})) fun {n} =>"], n, ("List", ("List", K))
        return None
    if f == "signal.convolve" and len(args) == 2 and set(kw) == {"mode"} and isinstance(kw["mode"], ast.Constant) and kw["mode"].value == "same":
        s1, w, tw = tr.tr(args[1], want)
        if not _rs_is_arr(tw, tr):
            return None
        s0, a, ta = tr.tr(args[0], tw)
        if ta == tw:
            return s0 + s1, f"(Py.convolveSame {a} {w})", ta
        return None
    return None


def _rs_stmt(tr, s):
    if not (isinstance(s, ast.Assign) and len(s.targets) == 1 and isinstance(s.targets[0], ast.Subscript)):
        return None
    tgt = s.targets[0]
    # --- stores into columns of a 2-d float array
    if isinstance(tgt.slice, ast.Tuple) and len(tgt.slice.elts) == 2 and is_full_slice(tgt.slice.elts[0]) and isinstance(tgt.value, ast.Name):
        s0, m, tm = tr.tr(tgt.value)
        if s0 or not _rs_is_arr(tm, tr, 2):
            return None
        x1 = tgt.slice.elts[1]
        lv = tr.lvalue(tgt.value)
        if isinstance(x1, ast.Slice) and x1.lower is None and x1.step is None and isinstance(x1.upper, ast.Constant) \
                and isinstance(x1.upper.value, int) and x1.upper.value >= 0:
            s2, a, ta = tr.tr(s.value, tm)                     # right-hand side first
            if ta != tm:
                return None
            n = tr.bindname()
            return tr.chain(s2 + [f"Py.bind (Py.setColBlock {tr.reread(tgt.value)} {x1.upper.value} {a}) fun {n} =>"], ".next " + lv(n))
        if not isinstance(x1, ast.Slice):
            s2, a, ta = tr.tr(s.value, tm[1])
            if ta != tm[1]:
                return None                                     # a scalar: the built-in rule
            s1, j, tj = tr.tr(x1)
            if tj != "Int":
                return None
            n = tr.bindname()
            return tr.chain(s2 + s1 + [f"Py.bind (Py.setCol {tr.reread(tgt.value)} {j} {a}) fun {n} =>"], ".next " + lv(n))
        return None
    # --- A[lo:hi] = b on a 1-d float array that is a variable or a dictionary entry
    if isinstance(tgt.slice, ast.Slice) and tgt.slice.step is None:
        lo, hi = _rs_const_bound(tgt.slice.lower), _rs_const_bound(tgt.slice.upper)
        if lo is None or hi is None:
            return None
        base = tgt.value
        if isinstance(base, ast.Name):
            s0, a, ta = tr.tr(base)
            if s0 or not _rs_is_arr(ta, tr):
                return None
            s2, b, tb = tr.tr(s.value, ta)
            if tb != ta:
                return None
            n = tr.bindname()
            return tr.chain(s2 + [f"Py.bind (Py.setSlice {tr.reread(base)} {lo} {hi} {b}) fun {n} =>"], ".next " + tr.lvalue(base)(n))
        if isinstance(base, ast.Subscript) and not isinstance(base.slice, (ast.Slice, ast.Tuple)):
            dtxt = ast.unparse(base.value)
            dname = tr.spec.stores.get(dtxt, dtxt if isinstance(base.value, ast.Name) else None)   # a container modelled as a variable (`stores`)
            if dname is None or dname not in tr.vars:
                return None
            td = tr.vars[dname]
            if not (isinstance(td, tuple) and td[0] == "Dict" and _rs_is_arr(td[2], tr)):
                return None
            s2, b, tb = tr.tr(s.value, td[2])                   # right-hand side first, then the target's sub-expressions
            if tb != td[2]:
                return None
            s1, k, tk = tr.tr(base.slice)
            if tk != td[1]:
                return None
            n1, n2 = tr.bindname(), tr.bindname()
            d = f"v.{lname(dname)}"
            return tr.chain(s2 + s1 + [f"Py.bind (Py.Dict.get? {d} {k}) fun {n1} =>", f"Py.bind (Py.setSlice {n1} {lo} {hi} {b}) fun {n2} =>"],
                            f".next {{ v with {lname(dname)} := Py.Dict.set {d} {k} {n2} }}")
    return None


EXPR_HOOKS.append(_rs_expr)
STMT_HOOKS.append(_rs_stmt)

_RS_FILE = "swcgeom/transforms/branch.py"
_RS_F = ["(F : Py.Fld K)"]

# Trusted glue: the SEGMENT LENGTHS `np.linalg.norm(xyzr[1:, :3] - xyzr[:-1, :3], axis=1)` are the parameter `seglen` (no square root in K);
# `self.n_nodes` is the parameter `n_nodes`.
spec(lean="lin_resample", module="AlgoResample", file=_RS_FILE, cls="BranchLinearResampler", func="resample",
     params=["xyzr", "seglen", "n_nodes"], num_tparams=["K"], fparams=_RS_F,
     vars={"xyzr": "List (List K)", "seglen": "List K", "n_nodes": "Int", "xp": "List K", "xvals": "List K",
           "x": "List K", "y": "List K", "z": "List K", "r": "List K"},
     ret="List (List K)",
     subst={"np.linalg.norm(xyzr[1:, :3] - xyzr[:-1, :3], axis=1)": ("v.seglen", "List K"), "self.n_nodes": ("v.n_nodes", "Int")},
     doc="`swcgeom/transforms/branch.py::BranchLinearResampler.resample` (`xyzr` is the list of its rows; the segment lengths "
         "`np.linalg.norm(xyzr[1:, :3] - xyzr[:-1, :3], axis=1)` are the parameter `seglen`, `self.n_nodes` is the parameter `n_nodes`)")

# Trusted glue: `diffs = np.diff(xyzr[:, :3], axis=0)` is skipped and `np.sqrt((diffs ** 2).sum(axis=1))` (the segment lengths) is the parameter
# `seglen`; `self.distance`, `self.adjust_last_gap` are the parameters of those names.
spec(lean="iso_resample", module="AlgoResample", file=_RS_FILE, cls="BranchIsometricResampler", func="resample",
     params=["xyzr", "seglen", "distance", "adjust_last_gap"], num_tparams=["K"], fparams=_RS_F,
     vars={"xyzr": "List (List K)", "seglen": "List K", "distance": "K", "adjust_last_gap": "Bool", "distances": "List K",
           "cumulative_distances": "List K", "total_length": "K", "n_nodes": "Int", "new_distances": "List K",
           "new_xyzr": "List (List K)", "i": "Int"},
     ret="List (List K)",
     skip_stmts=["diffs = np.diff(xyzr[:, :3], axis=0)"],
     subst={"np.sqrt((diffs ** 2).sum(axis=1))": ("v.seglen", "List K"), "self.distance": ("v.distance", "K"),
            "self.adjust_last_gap": ("v.adjust_last_gap", "Bool")},
     doc="`swcgeom/transforms/branch.py::BranchIsometricResampler.resample` (`xyzr` is the list of its rows; the segment lengths "
         "`np.sqrt((np.diff(xyzr[:, :3], axis=0) ** 2).sum(axis=1))` are the parameter `seglen`; `self.distance`, `self.adjust_last_gap` are parameters)")

# Trusted glue: after `x = x.detach()` (skipped) the branch IS the dictionary of its columns `x.attach.ndata` = the parameter `ndata`
# (`x.get_ndata(k)` = a copy of `ndata[k]`, KeyError included); `x.number_of_nodes()` is the parameter `n`; `self.kernel` is the parameter
# `kernel` (`np.ones(n_nodes)`, set in `__init__`); `return x` returns the updated `ndata` (out-parameter).
spec(lean="conv_smooth", module="AlgoResample", file=_RS_FILE, cls="BranchConvSmoother", func="__call__",
     params=["ndata", "n", "kernel"], num_tparams=["K"], fparams=_RS_F,
     vars={"ndata": "Dict String (List K)", "n": "Int", "kernel": "List K", "c": "List K", "k": "String", "v": "List K", "s": "List K"},
     ret="Unit", out=["ndata"],
     skip_stmts=["x = x.detach()"],
     stores={"x.attach.ndata": "ndata"},
     subst={"x.number_of_nodes()": ("v.n", "Int"), "self.kernel": ("v.kernel", "List K"),
            "x.get_ndata(k)": ("t_nd", "List K", ["Py.bind (Py.Dict.get? v.ndata v.k) fun t_nd =>"]),
            "x": ("()", "Unit")},
     doc="`swcgeom/transforms/branch.py::BranchConvSmoother.__call__` (after `x = x.detach()` the branch is the dictionary `ndata` of its columns; "
         "`x.number_of_nodes()` is the parameter `n`, `self.kernel` the parameter `kernel`)")
