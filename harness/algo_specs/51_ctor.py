# C03 / C18 / C08 (session 4, T26 `ctor`): the thin wrappers users call around the proved cores  ->  Gen/AlgoCtor.lean
#   swcgeom/core/swc_utils/checker.py     is_binary_tree, check_single_root            (deprecated spellings)
#   swcgeom/core/tree.py                  Tree.get_bifurcations;  swcgeom/core/node.py  Node.is_bifurcation   (deprecated spellings)
#   (the two groups go to two modules, Gen/AlgoCtor.lean (C03 / C18) and Gen/AlgoCtorTree.lean (C08), so that a change of normalizer.py / checker.py
#   cannot break the generated module of C08 and vice versa)
MODULE_IMPORTS["AlgoCtor"] = ["AlgoCheckers", "AlgoNormalizer", "AlgoSort", "AlgoRepair"]
MODULE_IMPORTS["AlgoCtorTree"] = ["AlgoNode", "AlgoBranches"]
CALLEES["is_bifurcate"] = "is_bifurcate"

_CK = "swcgeom/core/swc_utils/checker.py"

spec(lean="is_binary_tree", module="AlgoCtor", file=_CK, func="is_binary_tree",
     params=["ids", "pids", "exclude_root"],
     vars={"ids": "List Int", "pids": "List Int", "exclude_root": "Bool", "topo": "(List Int) × (List Int)"}, ret="Bool",
     subst={"df[names.id]": ("v.ids", "List Int"), "df[names.pid]": ("v.pids", "List Int")}, skip_stmts=["names = get_names(names)"],
     defaults={"exclude_root": "True"},
     doc="`swcgeom/core/swc_utils/checker.py::is_binary_tree` (the two DataFrame columns are the parameters `ids`, `pids`)")

spec(lean="check_single_root", module="AlgoCtor", file=_CK, func="check_single_root",
     params=["ids", "pids"], vars={"ids": "List Int", "pids": "List Int"}, ret="Bool", fuel=True,
     call_alias={"is_single_root": ("is_single_root", ["ids", "pids"])},
     doc="`swcgeom/core/swc_utils/checker.py::check_single_root` (`*args` is the frame: its two columns `ids`, `pids`)")

spec(lean="get_bifurcations", module="AlgoCtorTree", file=_TREE, cls="Tree", func="get_bifurcations",
     params=["ids", "pids"], vars={"ids": "List Int", "pids": "List Int"}, ret="List Int", fuel=True,
     tree_cols={"self": {"id": "ids", "pid": "pids"}},
     doc="`swcgeom/core/tree.py::Tree.get_bifurcations` (the tree is its two topology columns; a `Node` of the result is its id)")

spec(lean="node_is_bifurcation", module="AlgoCtorTree", file="swcgeom/core/node.py", cls="Node", func="is_bifurcation",
     params=["ids", "pids", "self"], vars={"ids": "List Int", "pids": "List Int", "self": "Node@self.attach"}, ret="Bool", tree_cols=_ATT)


# ------------------------------------------------------------------------------------------------------------------------------------
# the copying spellings of the normalizer (`mark_roots_as_somas`, `sort_nodes`, `reset_index`, `link_roots_to_nearest`) and `_copy_and_apply`
#
# DATA.  Here a DataFrame is an OBJECT: the frames live in the heap `heap : Py.Frames` (Model/PyCtor.lean; a frame = its columns ids / pids /
# types / rs), a DataFrame-valued variable is a reference `Ref@Frame` (an index into the heap).  That makes "the frame handed in is left
# alone" a statement about the generated code: without the `df.copy()` the in-place procedure would update the caller's frame.
#
# HOOKS (general constructs; active for this file's module only):
#   * `E.copy()` on a `Ref@Frame` expression: `Py.Frames.copy` allocates a new frame with equal columns (pandas' default deep copy)
#   * a call STATEMENT `f(E, *args, **kwargs)` of a function-valued parameter `f` (declared in `fparams` as a frame procedure
#     `Py.Frames → Int → Option Py.Frames`): the procedure is run on the frame `E` refers to; `*args, **kwargs` are forwarded verbatim, i.e.
#     they are already bound in the closure the caller passes (next item)
#   * a call `H(P_, E, k=x, …, names=names)` of a translated higher-order function `H` (one with such an `fparams` procedure) with a translated
#     in-place frame procedure `P_` (FRAME_PROCS: which frame column each of its column parameters is): `P_` is partially applied to the keyword
#     arguments (matched by NAME against `P_`'s own parameters; a keyword `P_` does not have is a translator failure) and lifted to the heap
#     with `Py.Frames.apply` (read the columns of the referenced frame, run `P_`, store the columns it returns).
# TRUSTED GLUE: `names=names` is dropped (the default column names, as in `names = get_names(names)` of the in-place procedures);
#   a procedure with callbacks (`link_roots_to_nearest_`: `norm`) is handed the caller's callback state and the state it returns is dropped
#   (`norm` only READS the coordinate columns, which no procedure here writes).
MODULE_MODEL_IMPORTS["AlgoCtor"] = ["PyCtor"]
MODULE_IMPORTS["AlgoCtor"] = ["Model.PyFrame"] + MODULE_IMPORTS["AlgoCtor"]
FRAME_TYPE = "Ref@Frame"
FRAME_FIELDS = ["ids", "pids", "types", "rs"]
FRAME_PROC_T = "Py.Frames → Int → Option Py.Frames"
# python name of an in-place procedure -> {its column parameter: the frame column it is}
FRAME_PROCS = {"mark_roots_as_somas_": {"ids": "ids", "pids": "pids", "types": "types"},
               "reset_index_": {"ids": "ids", "pids": "pids"},
               "link_roots_to_nearest_": {"ids": "ids", "pids": "pids"},
               "sort_nodes_": {"cid": "ids", "cpid": "pids", "ctype": "types", "cr": "rs"}}


def _fparam_names(sp):
    return {b.strip("()").split(":")[0].strip(): b.strip("()").split(":", 1)[1].strip() for b in sp.fparams}


def _frame_heap_var(tr):
    hs = [k for k, t in tr.vars.items() if t == "Py.Frames"]
    if len(hs) != 1:
        raise Untranslatable(f"{tr.spec.lean}: needs exactly one variable of type Py.Frames (the heap of frames)")
    return lname(hs[0])


def _frame_copy(tr, e, want):
    if not (isinstance(e, ast.Call) and isinstance(e.func, ast.Attribute) and e.func.attr == "copy" and not e.args and not e.keywords):
        return None
    s, c, t = tr.tr(e.func.value)
    if t != FRAME_TYPE:
        return None
    h, n = _frame_heap_var(tr), tr.bindname()
    return s + [f"Py.bind (Py.Frames.copy v.{h} {c}) fun {n} => let v := {{ v with {h} := {n}.1 }};"], f"{n}.2", FRAME_TYPE


def _frame_proc_call(tr, s):
    if not (isinstance(s, ast.Expr) and isinstance(s.value, ast.Call) and isinstance(s.value.func, ast.Name)):
        return None
    e = s.value
    if _fparam_names(tr.spec).get(e.func.id) != FRAME_PROC_T:
        return None
    if not (len(e.args) == 2 and ast.unparse(e.args[1]) == "*args" and len(e.keywords) == 1 and ast.unparse(e.keywords[0]) == "**kwargs"):
        raise Untranslatable(f"{tr.spec.lean}: `{ast.unparse(e)}`: a frame procedure is called as f(frame, *args, **kwargs)")
    st, c, t = tr.tr(e.args[0])
    if t != FRAME_TYPE:
        raise Untranslatable(f"{tr.spec.lean}: `{ast.unparse(e)}`: the first argument is not a frame")
    h, n = _frame_heap_var(tr), tr.bindname()
    return tr.chain(st + [f"Py.bind ({e.func.id} v.{h} {c}) fun {n} =>"], f".next {{ v with {h} := {n} }}")


def _higher_order_call(tr, e, want):
    if not (isinstance(e, ast.Call) and ast.unparse(e.func) in tr.table and e.args and isinstance(e.args[0], ast.Name)
            and e.args[0].id in FRAME_PROCS and e.args[0].id in tr.table):
        return None
    H, P, cols = tr.table[ast.unparse(e.func)], tr.table[e.args[0].id], FRAME_PROCS[e.args[0].id]
    if list(_fparam_names(H).values()) != [FRAME_PROC_T] or len(e.args) != 2 or H.fuel or H.callbacks:
        return None
    st, c, t = tr.tr(e.args[1])
    if t != FRAME_TYPE:
        raise Untranslatable(f"{tr.spec.lean}: `{ast.unparse(e)}`: the second argument is not a frame")
    kw = {k.arg: k.value for k in e.keywords}
    if None in kw:
        raise Untranslatable(f"{tr.spec.lean}: `{ast.unparse(e)}`: **kwargs")
    if "names" in kw and ast.unparse(kw.pop("names")) != "names":
        raise Untranslatable(f"{tr.spec.lean}: `{ast.unparse(e)}`: names")
    codes = []
    for pn in P.params:
        if pn in cols:
            codes.append(f"fr.{cols[pn]}")
        elif pn in kw:
            pt = parse_type(P.vars[pn])
            s1, c1, t1 = tr.tr(kw.pop(pn), pt)
            if t1 != pt:
                s1, c1 = tr.coerce2(s1, c1, t1, pt)
            st += s1
            codes.append(c1)
        else:
            raise Untranslatable(f"{tr.spec.lean}: `{ast.unparse(e)}` gives no value for `{pn}` of {P.lean}")
    if kw:
        raise Untranslatable(f"{tr.spec.lean}: `{ast.unparse(e)}`: {P.lean} has no parameter {sorted(kw)}")
    if P.fuel and not tr.spec.fuel:
        raise Untranslatable(f"{tr.spec.lean}: {P.lean} needs fuel")
    if P.callbacks and P.callbacks != tr.spec.callbacks:
        raise Untranslatable(f"{tr.spec.lean}: {P.lean} with different callbacks")
    pre = (tr.bargs_nofuel + " " if P.callbacks else "") + ("fuel " if P.fuel else "")
    post = " v.cbs" if P.callbacks else ""
    k = len(P.out) + (1 if P.callbacks else 0) + 1
    back = ", ".join(f"{cols[o]} := {proj('r', j, k)}" for j, o in enumerate(P.out))
    lam = (f"(fun h d => Py.Frames.apply h d (fun fr => ({P.lean} {pre}{' '.join(codes)}{post}).map fun r => {{ fr with {back} }}))")
    h, n = _frame_heap_var(tr), tr.bindname()
    if H.out != [h] or parse_type(H.ret) != FRAME_TYPE:
        raise Untranslatable(f"{tr.spec.lean}: {H.lean} is not a heap-passing function returning a frame")
    return st + [f"Py.bind ({H.lean} {lam} v.{h} {c}) fun {n} => let v := {{ v with {h} := {n}.1 }};"], f"{n}.2", FRAME_TYPE


EXPR_HOOKS.append(_frame_copy)
EXPR_HOOKS.append(_higher_order_call)
STMT_HOOKS.append(_frame_proc_call)

_HV = {"heap": "Py.Frames", "df": FRAME_TYPE}
spec(lean="copy_and_apply", module="AlgoCtor", file=_NORM, func="_copy_and_apply", callee=["_copy_and_apply"],
     params=["heap", "df"], vars=_HV, ret=FRAME_TYPE, out=["heap"], fparams=[f"(fn : {FRAME_PROC_T})"],
     doc="`swcgeom/core/swc_utils/normalizer.py::_copy_and_apply` (frames are objects in `heap`, `df` a reference; `fn` with its bound `*args, **kwargs` "
         "is a procedure on the heap)")
spec(lean="mark_roots_as_somas", module="AlgoCtor", file=_NORM, func="mark_roots_as_somas",
     params=["heap", "df", "update_type"], vars=dict(_HV, update_type="Option Int"), ret=FRAME_TYPE, out=["heap"],
     defaults={"update_type": "1"},
     doc="`swcgeom/core/swc_utils/normalizer.py::mark_roots_as_somas` (frames are objects in `heap`; `update_type=False` is `none`)")
spec(lean="reset_index", module="AlgoCtor", file=_NORM, func="reset_index",
     params=["heap", "df"], vars=_HV, ret=FRAME_TYPE, out=["heap"],
     doc="`swcgeom/core/swc_utils/normalizer.py::reset_index` (frames are objects in `heap`)")
spec(lean="sort_nodes", module="AlgoCtor", file=_NORM, func="sort_nodes",
     params=["heap", "df"], vars=_HV, ret=FRAME_TYPE, out=["heap"], fuel=True,
     doc="`swcgeom/core/swc_utils/normalizer.py::sort_nodes` (frames are objects in `heap`)")
spec(lean="link_roots_to_nearest", module="AlgoCtor", file=_NORM, func="link_roots_to_nearest",
     params=["heap", "df"], vars=_HV, ret=FRAME_TYPE, out=["heap"], fuel=True, tparams=["σ"], callbacks=_DIST,
     doc="`swcgeom/core/swc_utils/normalizer.py::link_roots_to_nearest` (frames are objects in `heap`; the distances are the callback `norm`)")


# ------------------------------------------------------------------------------------------------------------------------------------
# `Tree.__init__` and `padding1d`  ->  Gen/AlgoCtorInit.lean  (C03: what the constructor copies and what it ALIASES)
#
# DATA.  numpy arrays are OBJECTS (Model/PyCtor.lean): an array is a record `Arr` = a window onto a buffer of the heap `heap : Py.Bufs`, with a
# dtype tag (np.int32 = 0, np.float32 = 1, np.int64 = 2, np.float64 = 3); `**kwargs` / `ndata` are `Dict String Arr`.
#
# HOOKS (numpy idioms on array objects; active for this file's modules only; every allocating call appends ONE buffer to the heap):
#   np.arange(a, b, step=1, dtype=D) · np.zeros(n, dtype=D) · np.full(n, x, dtype=D) · np.concatenate([a, b]) · a.astype(D) · a.copy() ·
#   np.array(a)   (allocate; the last two are the identity in the translator's value-level rules, which must not apply to array OBJECTS)
#   a[:n] (a VIEW: same buffer) · a.dtype · a.shape[0] · a.ndim (= 1: all modelled arrays are 1-d) · np.int32 / np.float32 (the tags)
#   an attribute / method of a variable of type `Option Arr`: `None` has none -> an error of the typed model
#   `x or y` with x : Option T  (None is falsy; a dtype is never falsy) · `a != b` / `a == b` between T and Option T
#   `d.pop(k, None)` on a dict VARIABLE (Py.dictPopD, the variable is updated) · `{**a, **b}` (Py.dictMerge)
#   a call of a translated function whose first parameter is the buffer heap (`padding1d`): the caller's heap is handed in and written back;
#   keywords by name, missing ones from the callee's own `def` (read from its current source)
#   `np.array(x, dtype=D)` of a NON-array sequence: not modelled -> an error of the typed model
# TRUSTED GLUE:
#   padding1d: `isinstance(v, np.ndarray)` is `v is not None` (the only non-array value the callers translated here hand in is None)
#   Tree.__init__: `names = get_names(names)` skipped and `names.<col>` = the default column names; the final
#     `super().__init__(**ndata, **kwargs, source=…, comments=…, names=…)` is `self.ndata = {**ndata, **kwargs}` (DictSWC.__init__ stores its
#     `**kwargs` dict as `ndata`; source / comments / names are not modelled here, see 70_views.py for DictSWC.__init__ itself).
MODULE_MODEL_IMPORTS["AlgoCtorInit"] = ["PyCtor"]
_INIT_MODS = {"AlgoCtorInit"}
STRUCTS["Arr"] = {"buf": "Int", "len": "Int", "dtype": "Int"}
_ARR, _OARR = "Arr", ("Option", "Arr")
_DTYPES = {"np.int32": 0, "np.float32": 1, "np.int64": 2, "np.float64": 3}


def _show_arr(t):
    return "Py.Arr" if t == "Arr" else None


SHOW_TYPE_HOOKS.append(_show_arr)


def _bufs_var(tr):
    hs = [k for k, t in tr.vars.items() if t == "Py.Bufs"]
    if len(hs) != 1:
        raise Untranslatable(f"{tr.spec.lean}: needs exactly one variable of type Py.Bufs (the heap of buffers)")
    return lname(hs[0])


def _as(tr, e, ty):
    """(steps, code) of `e` as a value of type `ty` (an `Option ty` is unwrapped: None where a value is needed is an error)"""
    s, c, t = tr.tr(e, ty)
    if t != ty:
        s, c = tr.coerce2(s, c, t, ty)
    return s, c


def _alloc(tr, steps, call, fallible):
    h, n = _bufs_var(tr), tr.bindname()
    if fallible:
        return steps + [f"Py.bind ({call}) fun {n} => let v := {{ v with {h} := {n}.1 }};"], f"{n}.2", _ARR
    return steps + [f"let {n} := {call}; let v := {{ v with {h} := {n}.1 }};"], f"{n}.2", _ARR


def _np_arrays(tr, e, want):
    if tr.spec.module not in _INIT_MODS:
        return None
    txt = ast.unparse(e)
    if txt in _DTYPES:
        return [], f"({_DTYPES[txt]} : Int)", "Int"
    if isinstance(e, ast.Call):
        f = ast.unparse(e.func)
        kw = {k.arg: k.value for k in e.keywords}
        h = None
        if f == "np.arange" and len(e.args) == 2 and set(kw) == {"step", "dtype"} and ast.unparse(kw["step"]) == "1":
            (s1, a), (s2, b), (s3, d) = _as(tr, e.args[0], "Int"), _as(tr, e.args[1], "Int"), _as(tr, kw["dtype"], "Int")
            return _alloc(tr, s1 + s2 + s3, f"Py.Bufs.arange v.{_bufs_var(tr)} {a} {b} {d}", False)
        if f == "np.zeros" and len(e.args) == 1 and set(kw) == {"dtype"}:
            (s1, a), (s3, d) = _as(tr, e.args[0], "Int"), _as(tr, kw["dtype"], "Int")
            return _alloc(tr, s1 + s3, f"Py.Bufs.full v.{_bufs_var(tr)} {a} 0 {d}", True)
        if f == "np.full" and len(e.args) == 2 and set(kw) == {"dtype"}:
            (s1, a), (s2, b), (s3, d) = _as(tr, e.args[0], "Int"), _as(tr, e.args[1], "Int"), _as(tr, kw["dtype"], "Int")
            return _alloc(tr, s1 + s2 + s3, f"Py.Bufs.full v.{_bufs_var(tr)} {a} {b} {d}", True)
        if f == "np.concatenate" and len(e.args) == 1 and isinstance(e.args[0], ast.List) and len(e.args[0].elts) == 2 and not kw:
            (s1, a), (s2, b) = _as(tr, e.args[0].elts[0], _ARR), _as(tr, e.args[0].elts[1], _ARR)
            return _alloc(tr, s1 + s2, f"Py.Bufs.concat v.{_bufs_var(tr)} {a} {b}", True)
        if f == "np.array" and len(e.args) == 1 and set(kw) == {"dtype"}:
            s, c, t = tr.tr(e.args[0])
            if t in (_ARR, _OARR):
                n = tr.bindname()      # a non-array sequence turned into an array: not modelled
                return s + [f"Py.bind (none : Option Py.Arr) fun {n} =>"], n, _ARR
        # `a.copy()` / `np.array(a)` of an array OBJECT allocate (the built-in value-level rules read them as the identity: not here)
        if ((isinstance(e.func, ast.Attribute) and e.func.attr == "copy" and not e.args and not kw)
                or (f == "np.array" and len(e.args) == 1 and not kw)):
            src = e.func.value if f != "np.array" else e.args[0]
            s, c, t = tr.tr(src)
            if t in (_ARR, _OARR):
                s1, a = _as(tr, src, _ARR)
                return _alloc(tr, s1, f"Py.Bufs.astype v.{_bufs_var(tr)} {a} {a}.dtype", True)
        if isinstance(e.func, ast.Attribute) and e.func.attr == "astype" and len(e.args) == 1 and not kw:
            s, c, t = tr.tr(e.func.value)
            if t in (_ARR, _OARR):
                (s1, a), (s2, d) = _as(tr, e.func.value, _ARR), _as(tr, e.args[0], "Int")
                return _alloc(tr, s1 + s2, f"Py.Bufs.astype v.{_bufs_var(tr)} {a} {d}", True)
        if (isinstance(e.func, ast.Attribute) and e.func.attr == "pop" and len(e.args) == 2 and ast.unparse(e.args[1]) == "None" and not kw
                and isinstance(e.func.value, ast.Name) and isinstance(tr.vars.get(e.func.value.id), tuple) and tr.vars[e.func.value.id][0] == "Dict"):
            dn, dt = lname(e.func.value.id), tr.vars[e.func.value.id]
            s1, k = _as(tr, e.args[0], dt[1])
            n = tr.bindname()
            return s1 + [f"let {n} := Py.dictPopD v.{dn} {k}; let v := {{ v with {dn} := {n}.1 }};"], f"{n}.2", ("Option", dt[2])
        # a translated function over the buffer heap
        if f in tr.table and tr.table[f].params and tr.table[f].vars.get(tr.table[f].params[0]) == "Py.Bufs":
            cal = tr.table[f]
            if cal.out != [cal.params[0]] or cal.fuel or cal.callbacks:
                return None
            given = dict(zip(cal.params[1:], e.args))
            if len(e.args) > len(cal.params) - 1 or None in kw or set(kw) & set(given) or set(kw) - set(cal.params[1:]):
                raise Untranslatable(f"{tr.spec.lean}: arguments of `{txt}`")
            given.update(kw)
            dfl = fn_defaults(cal)
            steps, codes = [], []
            for pn in cal.params[1:]:
                x = given.get(pn, dfl.get(pn))
                if x is None:
                    raise Untranslatable(f"{tr.spec.lean}: `{txt}` gives no `{pn}`")
                pt = parse_type(cal.vars[pn])
                s1, c1, t1 = tr.tr(x, pt)
                if t1 != pt:
                    c1 = tr.coerce(c1, t1, pt)
                steps += s1
                codes.append(c1)
            return _alloc(tr, steps, f"{cal.lean} v.{_bufs_var(tr)} {' '.join(codes)}", True)[:2] + (parse_type(cal.ret),)
    if isinstance(e, ast.Attribute) and e.attr in ("dtype", "ndim"):
        s, c, t = tr.tr(e.value)
        if t in (_ARR, _OARR):
            s1, a = _as(tr, e.value, _ARR)
            return (s1, f"{a}.dtype", "Int") if e.attr == "dtype" else (s1, "(1 : Int)", "Int")
    if (isinstance(e, ast.Subscript) and isinstance(e.value, ast.Attribute) and e.value.attr == "shape" and ast.unparse(e.slice) == "0"):
        s, c, t = tr.tr(e.value.value)
        if t in (_ARR, _OARR):
            s1, a = _as(tr, e.value.value, _ARR)
            return s1, f"{a}.len", "Int"
    if (isinstance(e, ast.Subscript) and isinstance(e.slice, ast.Slice) and e.slice.lower is None and e.slice.step is None and e.slice.upper is not None):
        s, c, t = tr.tr(e.value)
        if t in (_ARR, _OARR):
            (s1, a), (s2, n) = _as(tr, e.value, _ARR), _as(tr, e.slice.upper, "Int")
            return s1 + s2, f"(Py.Arr.pre {a} {n})", _ARR
    if isinstance(e, ast.BoolOp) and isinstance(e.op, ast.Or) and len(e.values) == 2:
        s1, a, ta = tr.tr(e.values[0])
        if isinstance(ta, tuple) and ta[0] == "Option" and ta[1] == "Int" and ast.unparse(e.values[1]) in _DTYPES:
            s2, b = _as(tr, e.values[1], ta[1])
            return s1 + s2, f"(some (({a}).getD {b}))", ta
    if isinstance(e, ast.Compare) and len(e.ops) == 1 and isinstance(e.ops[0], (ast.Eq, ast.NotEq)):
        s1, a, ta = tr.tr(e.left)
        s2, b, tb = tr.tr(e.comparators[0])
        if ta == "Int" and tb == ("Option", "Int"):
            a, ta = f"(some {a})", tb
        elif tb == "Int" and ta == ("Option", "Int"):
            b, tb = f"(some {b})", ta
        else:
            return None
        sym = "=" if isinstance(e.ops[0], ast.Eq) else "≠"
        return s1 + s2, f"(decide ({a} {sym} {b}))", "Bool"
    if isinstance(e, ast.Dict) and e.keys and all(k is None for k in e.keys) and isinstance(want, tuple) and want[0] == "Dict":
        steps, code = [], None
        for x in e.values:
            s1, c1, t1 = tr.tr(x, want)
            if t1 != want:
                return None
            steps += s1
            code = c1 if code is None else f"(Py.dictMerge {code} {c1})"
        return steps, code, want
    return None


EXPR_HOOKS.append(_np_arrays)

_NH = "swcgeom/utils/numpy_helper.py"
spec(lean="padding1d", module="AlgoCtorInit", file=_NH, func="padding1d", callee=["padding1d"],
     params=["heap", "n", "v", "padding_value", "dtype"],
     vars={"heap": "Py.Bufs", "n": "Int", "v": "Option Arr", "padding_value": "Int", "dtype": "Option Int", "padding": "Arr"},
     ret="Arr", out=["heap"], subst={"isinstance(v, np.ndarray)": ("(v.v).isSome", "Bool")},
     defaults={"padding_value": "0", "dtype": "None"},
     doc="`swcgeom/utils/numpy_helper.py::padding1d` (arrays are objects over the buffer heap `heap`; `v` is an array or None)")

_NAMES = {f"names.{k}": (f'"{k}"', "String") for k in ("id", "type", "x", "y", "z", "r", "pid")}
spec(lean="tree_init", module="AlgoCtorInit", file=_TREE, cls="Tree", func="__init__",
     params=["heap", "n_nodes", "kwargs"],
     vars={"heap": "Py.Bufs", "n_nodes": "Int", "kwargs": "Dict String Arr", "ndata": "Dict String Arr", "self_ndata": "Dict String Arr"},
     ret="Unit", out=["heap", "self_ndata"], subst=_NAMES, skip_stmts=["names = get_names(names)"],
     stmt_subst={"super().__init__(**ndata, **kwargs, source=source, comments=comments, names=names)": "self_ndata = {**ndata, **kwargs}"},
     doc="`swcgeom/core/tree.py::Tree.__init__` (arrays are objects over the buffer heap `heap`; `kwargs` = the columns handed in, `self_ndata` = "
         "the `ndata` dict of the new tree)")


# `Tree.from_data_frame`: the frame is the dict of its columns as array OBJECTS (`df[k].to_numpy()` hands out the column's own array: pandas
# returns a view of the column for a single-dtype column — TRUSTED, observed with np.shares_memory by the suite), `df.shape[0]` its row count.
#   * `Tree(n, **D, source=…, comments=…, names=…)` = the translated `Tree.__init__` on the heap with `kwargs` = D (hook: a constructor call of a
#     class whose `__init__` is a translated heap-passing function listed in _CTOR_HEAP_CTORS; the keywords that are not columns are not modelled)
# TRUSTED GLUE: `names = get_names(names)` skipped, `names.cols()` = the seven default names in the order of `SWCNames.cols`, `df.columns` = the keys
#   of the dict, `df.shape[0]` = the parameter `nrows`.
_CTOR_HEAP_CTORS = {"Tree": ("tree_init", {"source", "comments", "names"})}


def _heap_ctor(tr, e, want):
    if tr.spec.module not in _INIT_MODS or not (isinstance(e, ast.Call) and ast.unparse(e.func) in _CTOR_HEAP_CTORS):
        return None
    lean, dropped = _CTOR_HEAP_CTORS[ast.unparse(e.func)]
    cal = by_lean_global.get(lean) or [sp for sp in SPECS if sp.lean == lean][0]
    stars = [k.value for k in e.keywords if k.arg is None]
    if len(e.args) != 1 or len(stars) != 1 or {k.arg for k in e.keywords if k.arg is not None} - dropped:
        raise Untranslatable(f"{tr.spec.lean}: constructor call `{ast.unparse(e)}`")
    s1, n = _as(tr, e.args[0], "Int")
    dt = parse_type(cal.vars[cal.params[2]])
    s2, d, t = tr.tr(stars[0], dt)
    if t != dt:
        raise Untranslatable(f"{tr.spec.lean}: `**{ast.unparse(stars[0])}` is {t}")
    h, nm = _bufs_var(tr), tr.bindname()
    return (s1 + s2 + [f"Py.bind ({lean} v.{h} {n} {d}) fun {nm} => let v := {{ v with {h} := {nm}.1 }};"], f"{nm}.2.1", dt)


def _filter_comp(tr, e, want):
    """`[t for t in xs if c]` with a pure condition `c`: `xs.filter (fun t => c)`"""
    if tr.spec.module not in _INIT_MODS or not (isinstance(e, ast.ListComp) and len(e.generators) == 1):
        return None
    g = e.generators[0]
    if not (len(g.ifs) == 1 and not g.is_async and isinstance(g.target, ast.Name) and isinstance(e.elt, ast.Name) and e.elt.id == g.target.id):
        return None
    s0, xs, t = tr.tr(g.iter)
    if not (isinstance(t, tuple) and t[0] == "List"):
        return None
    old = dict(tr.spec.subst)
    bound = f"{lname(g.target.id)}_b"
    tr.spec.subst = dict(old, **{g.target.id: (bound, t[1] if isinstance(t[1], str) else t[1])})
    try:
        s1, c, tc = tr.tr(g.ifs[0])
    finally:
        tr.spec.subst = old
    if s1 or tc != "Bool":
        raise Untranslatable(f"{tr.spec.lean}: the filter of `{ast.unparse(e)}` is not a pure condition")
    return s0, f"(List.filter (fun {bound} => {c}) {xs})", t


EXPR_HOOKS.append(_heap_ctor)
EXPR_HOOKS.append(_filter_comp)

spec(lean="from_data_frame", module="AlgoCtorInit", file=_TREE, cls="Tree", func="from_data_frame",
     params=["heap", "df", "nrows"],
     vars={"heap": "Py.Bufs", "df": "Dict String Arr", "nrows": "Int", "cols": "List String", "tree": "Dict String Arr", "k": "String"},
     ret="Dict String Arr", out=["heap"], skip_stmts=["names = get_names(names)"],
     subst={"names.cols()": ('["id", "type", "x", "y", "z", "r", "pid"]', "List String"), "df.columns": ("(v.df.map (·.1))", "List String"),
            "df.shape[0]": ("v.nrows", "Int")},
     doc="`swcgeom/core/tree.py::Tree.from_data_frame` (the frame is the dict of its columns as array objects over the buffer heap; the result is the "
         "`ndata` dict of the new tree)")
