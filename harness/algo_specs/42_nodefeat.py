# C10 / C11 (T22 `nodefeat`): the classes behind the feature names of swcgeom/analysis/features.py (NodeFeatures, _SubsetNodesFeatures with
# FurcationFeatures / TipFeatures, PathFeatures, BranchFeatures) and the geometry helpers they rest on (core/path.py Path.length /
# straight_line_distance / tortuosity, core/node.py Node.distance, core/tree.py Tree.length)                 ->  Gen/AlgoNodeFeat.lean
# over a numeric type parameter `K` (run at Rat by the driver).  sqrt / arccos do not exist in K: the Euclidean norm of a vector and the arc
# cosine are the PURE FUNCTION PARAMETERS `norm : List K → K`, `acos : K → K` of the generated definitions (`fparams`); what is translated is
# WHICH vectors they are applied to, in which order, and what is done with the results.
#
# Data: a tree is its columns `ids`, `pids` and the (n, 3) array `axyz` of its coordinates (`SWCLike.xyz()`); a Path / Branch / Compartment
# attached to it is the list `idx` of its rows (as in 09_branchtree.py / 45_sholl.py).
#
# GENERAL constructs added through the hooks (none keyed on a function name; meaning in lean/SwcVerif/Model/PyNodeFeat.lean):
#   a - b   (1-d float arrays)                                   Py.Nf.subVec a b      (unequal lengths raise)
#   m - v   (2-d float array, 1-d float array)                   Py.Nf.subRows m v     (broadcast over the rows)
#   a - b   (2-d float arrays)                                   Py.Nf.sub2 a b        (unequal shapes raise)
#   np.linalg.norm(v)  (1-d)                                     norm v                (the function parameter `norm`)
#   np.linalg.norm(m, axis=1)  (2-d)                             Py.Nf.normRows norm m
#   np.linalg.norm(m, ord=2, axis=1, keepdims=True)  (2-d)       Py.Nf.normRowsKeep norm m
#   np.sum(a)  (1-d float array), sum(<generator of floats>)     Py.Nf.sumK a          (sequential from 0)
#   x == c, x != c  (float scalar, literal 0 / 1 / -1)             !(x < c || c < x)     (K has a decidable ORDER only; equality on every total order)
#   np.zeros_like(a, dtype=np.int32)  (1-d int array)              Py.fullLike a 0
#   x.item()  (float scalar)                                     x
#   np.array([i, …], dtype=np.float32)  (python ints)            [Py.Fld.ofInt i, …]
#   np.array(<list of floats / float rows>, dtype=np.float32)    the list              (rounding between float widths is outside every theorem)
#   np.matmul(a, b.T)  (2-d)                                     Py.Nf.matmulT a b
#   m + c  (2-d float array, float scalar)                       Py.Nf.addScalar2 m c
#   m == c  (2-d float array, literal 0 / 1 / -1)                Py.Nf.eqScalar2 m c   (a 2-d boolean mask; entry: neither x < c nor c < x)
#   np.where(mask, c, m)  (2-d mask, literal, 2-d float array)   Py.Nf.whereS2 mask c m   (c where the mask holds, else the entry of m; unequal shapes raise)
#   a / b  (2-d float arrays)                                    Py.Nf.div2 a b        (zero divisor raises)
#   np.clip(m, lo, hi)  (2-d, numeric literals)                  Py.Nf.clip2 m lo hi
#   np.arccos(m)  (2-d)                                          Py.Nf.map2 acos m     (the function parameter `acos`)
#   T.xyz() / n.xyz()  (T a tree that is column variables with a coordinate column "xyz", n a node handle of it)   the column / its row n
#   for n in T / [… for n in T]  (T a tree that is column variables)   the node handles 0 .. n-1   (`Tree.__iter__`: `(self[i] for i in range(len(self)))`)
#   calls resolved by their text (NF_CALLS: lean name of the caller -> {python call text: (lean name of the callee, [python argument texts])})
#
# TRUSTED GLUE (listed in design_notes/session4/nodefeat.md)
MODULE_MODEL_IMPORTS["AlgoNodeFeat"] = ["PyResample", "PyNodeFeat"]
MODULE_IMPORTS["AlgoNodeFeat"] = ["AlgoNode", "AlgoBranches", "AlgoSholl"]
share_hooks("AlgoResample", "AlgoNodeFeat")

NF_CALLS = {}


def _nf_depth(t, tr):
    d = 0
    while isinstance(t, tuple) and t[0] == "List":
        t = t[1]; d += 1
    return d if t in tr.num else -1


def _nf_K(tr):
    return next(iter(tr.num), None)


def _nf_lit(tr, e, K):
    """a numeric literal (possibly negated) as a float of type K"""
    if isinstance(e, ast.UnaryOp) and isinstance(e.op, ast.USub) and isinstance(e.operand, ast.Constant) and e.operand.value == 1 \
            and not isinstance(e.operand.value, bool):
        return f"((0 : {K}) - (1 : {K}))"
    if isinstance(e, ast.Constant) and isinstance(e.value, int) and not isinstance(e.value, bool) and e.value in (0, 1):
        return f"({e.value} : {K})"
    return None


def _nf_has(tr, name):
    return any(b.split()[0].strip("(") == name for b in tr.spec.fparams)


def _nf_expr(tr, e, want):
    K = _nf_K(tr)
    # --- a tree that is column variables, used as a VALUE (iterated): its node handles 0 .. n-1 (`Tree.__iter__`)
    if isinstance(e, (ast.Name, ast.Attribute)) and ast.unparse(e) in tr.spec.tree_cols and "id" in tr.spec.tree_cols[ast.unparse(e)]:
        T = ast.unparse(e)
        return [], f"(Py.range (Py.len v.{lname(tr.spec.tree_cols[T]['id'])}))", ("List", f"Node@{T}")
    # --- T.xyz() of a tree with a coordinate column; n.xyz() of a node handle of such a tree: its row
    if isinstance(e, ast.Call) and isinstance(e.func, ast.Attribute) and e.func.attr == "xyz" and not e.args and not e.keywords:
        T = ast.unparse(e.func.value)
        if T in tr.spec.tree_cols and "xyz" in tr.spec.tree_cols[T]:
            return [], f"v.{lname(tr.spec.tree_cols[T]['xyz'])}", ("List", ("List", K))
        s0, c, t = tr.tr(e.func.value)
        if is_node(t) and "xyz" in tr.spec.tree_cols.get(node_tree(t), {}):
            n = tr.bindname()
            return s0 + [f"Py.bind (Py.idx v.{lname(tr.spec.tree_cols[node_tree(t)]['xyz'])} {c}) fun {n} =>"], n, ("List", K)
        return None
    # --- calls / cached properties resolved by their text
    if isinstance(e, (ast.Call, ast.Attribute)):
        calls = NF_CALLS.get(tr.spec.lean, {})
        txt = ast.unparse(e)
        if txt in calls:
            lean, argtxt = calls[txt]
            callee = by_lean_global[lean]
            if callee.raises or callee.out or callee.callbacks:
                raise Untranslatable(f"{tr.spec.lean}: call of {lean}")
            if callee.fuel and not tr.spec.fuel:
                raise Untranslatable(f"{tr.spec.lean} calls {lean} which needs fuel")
            if any(b not in tr.spec.fparams for b in callee.fparams):
                raise Untranslatable(f"{tr.spec.lean}: {lean} needs {callee.fparams}")
            if len(argtxt) != len(callee.params):
                raise Untranslatable(f"{tr.spec.lean}: {lean} takes {callee.params}")
            steps, codes = [], []
            for pn, at in zip(callee.params, argtxt):
                pt = parse_type(callee.vars[pn])
                s, c, t = tr.tr(ast.parse(at, mode="eval").body, pt)
                if show_type(t) != show_type(pt):
                    raise Untranslatable(f"{tr.spec.lean}: argument `{at}` of {lean} is {t}, expected {pt}")
                steps += s; codes.append(c)
            fa = "".join(" " + b.split()[0].strip("(") for b in callee.fparams)
            n = tr.bindname()
            return steps + [f"Py.bind ({lean}{fa} {'fuel ' if callee.fuel else ''}{' '.join(codes)}) fun {n} =>"], n, parse_type(callee.ret)
    # --- np.zeros_like(a, dtype=np.int32) of a 1-d integer array
    if isinstance(e, ast.Call) and ast.unparse(e.func) == "np.zeros_like" and len(e.args) == 1 \
            and {k.arg: ast.unparse(k.value) for k in e.keywords} == {"dtype": "np.int32"}:
        s0, c, t = tr.tr(e.args[0])
        return (s0, f"(Py.fullLike {c} (0 : Int))", ("List", "Int")) if t == ("List", "Int") else None
    if K is None:
        return None
    # --- x == c / x != c on a float scalar and a numeric literal (K has a decidable order, no decidable equality: neither x < c nor c < x)
    if isinstance(e, ast.Compare) and len(e.ops) == 1 and isinstance(e.ops[0], (ast.Eq, ast.NotEq)) and _nf_lit(tr, e.comparators[0], K):
        s1, a, ta = tr.tr(e.left)
        c = _nf_lit(tr, e.comparators[0], K)
        if _nf_depth(ta, tr) == 2 and ta[0] == "List" and isinstance(e.ops[0], ast.Eq):
            # m == c on a 2-d float array: the elementwise mask
            return s1, f"(Py.Nf.eqScalar2 {a} {c})", ("List", ("List", "Bool"))
        if ta != K:
            return None
        eq = f"(!(decide ({a} < {c}) || decide ({c} < {a})))"
        return s1, eq if isinstance(e.ops[0], ast.Eq) else f"(!{eq})", "Bool"
    # --- subtraction of float arrays
    if isinstance(e, ast.BinOp) and isinstance(e.op, ast.Sub):
        s1, a, ta = tr.tr(e.left); s2, b, tb = tr.tr(e.right)
        da, db = _nf_depth(ta, tr), _nf_depth(tb, tr)
        fn = {(1, 1): "subVec", (2, 1): "subRows", (2, 2): "sub2"}.get((da, db))
        if fn is None or ta[0] != "List" or tb[0] != "List":
            return None
        n = tr.bindname()
        return s1 + s2 + [f"Py.bind (Py.Nf.{fn} {a} {b}) fun {n} =>"], n, ta
    # --- m + c (2-d, scalar); a / b (2-d)
    if isinstance(e, ast.BinOp) and isinstance(e.op, ast.Add):
        s1, a, ta = tr.tr(e.left)
        if _nf_depth(ta, tr) == 2 and ta[0] == "List":
            s2, b, tb = tr.tr(e.right, K)
            if tb == K:
                return s1 + s2, f"(Py.Nf.addScalar2 {a} {b})", ta
        return None
    if isinstance(e, ast.BinOp) and isinstance(e.op, ast.Div):
        s1, a, ta = tr.tr(e.left)
        if _nf_depth(ta, tr) == 2 and ta[0] == "List":
            s2, b, tb = tr.tr(e.right)
            if tb == ta:
                n = tr.bindname()
                return s1 + s2 + [f"Py.bind (Py.Nf.div2 {a} {b}) fun {n} =>"], n, ta
        return None
    if not isinstance(e, ast.Call):
        return None
    f = ast.unparse(e.func)
    args = e.args
    kw = {k.arg: ast.unparse(k.value) for k in e.keywords}
    # --- x.item()
    if isinstance(e.func, ast.Attribute) and e.func.attr == "item" and not args and not kw:
        s0, c, t = tr.tr(e.func.value, want)
        return (s0, c, t) if t in tr.num else None
    if f == "np.linalg.norm" and len(args) == 1 and _nf_has(tr, "norm"):
        s0, c, t = tr.tr(args[0])
        d = _nf_depth(t, tr)
        if d == 1 and not kw:
            return s0, f"(norm {c})", t[1]
        if d == 2 and kw == {"axis": "1"}:
            return s0, f"(Py.Nf.normRows norm {c})", t[1]
        if d == 2 and kw == {"ord": "2", "axis": "1", "keepdims": "True"}:
            return s0, f"(Py.Nf.normRowsKeep norm {c})", t
        return None
    if f == "np.sum" and len(args) == 1 and not kw:
        s0, c, t = tr.tr(args[0])
        if _nf_depth(t, tr) == 1:
            return s0, f"(Py.Nf.sumK {c})", t[1]
        return None
    if f == "sum" and len(args) == 1 and not kw and isinstance(args[0], (ast.GeneratorExp, ast.ListComp)):
        s0, c, t = tr.tr(ast.copy_location(ast.ListComp(args[0].elt, args[0].generators), args[0]), ("List", K))
        if _nf_depth(t, tr) == 1:
            return s0, f"(Py.Nf.sumK {c})", t[1]
        return None
    if f == "np.array" and len(args) == 1 and kw == {"dtype": "np.float32"}:
        snap = tr.snapshot()
        try:
            s0, c, t = tr.tr(args[0])
        except Untranslatable:
            tr.restore(snap)
            s0, c, t = tr.tr(args[0], want if want is not None else ("List", K))
        if _nf_depth(t, tr) >= 1:
            return s0, c, t
        if t == ("List", "Int"):
            return s0, f"(({c}).map fun i => (Py.Fld.ofInt i : {K}))", ("List", K)
        return None
    if f == "np.matmul" and len(args) == 2 and not kw and isinstance(args[1], ast.Attribute) and args[1].attr == "T":
        s1, a, ta = tr.tr(args[0]); s2, b, tb = tr.tr(args[1].value)
        if _nf_depth(ta, tr) == 2 and tb == ta:
            n = tr.bindname()
            return s1 + s2 + [f"Py.bind (Py.Nf.matmulT {a} {b}) fun {n} =>"], n, ta
        return None
    if f == "np.where" and len(args) == 3 and not kw and _nf_lit(tr, args[1], K):
        s1, m, tm = tr.tr(args[0]); s2, a, ta = tr.tr(args[2])
        if tm == ("List", ("List", "Bool")) and _nf_depth(ta, tr) == 2 and ta[0] == "List":
            n = tr.bindname()
            return s1 + s2 + [f"Py.bind (Py.Nf.whereS2 {m} {_nf_lit(tr, args[1], K)} {a}) fun {n} =>"], n, ta
        return None
    if f == "np.clip" and len(args) == 3 and not kw:
        s0, c, t = tr.tr(args[0])
        lo, hi = _nf_lit(tr, args[1], K), _nf_lit(tr, args[2], K)
        if _nf_depth(t, tr) == 2 and lo and hi:
            return s0, f"(Py.Nf.clip2 {c} {lo} {hi})", t
        return None
    if f == "np.arccos" and len(args) == 1 and not kw and _nf_has(tr, "acos"):
        s0, c, t = tr.tr(args[0])
        if _nf_depth(t, tr) == 2:
            return s0, f"(Py.Nf.map2 acos {c})", t
        return None
    return None


EXPR_HOOKS.append(_nf_expr)

_NORM = ["(norm : List K → K)"]
_PATH = "swcgeom/core/path.py"
_FEAT = "swcgeom/analysis/features.py"
_PV = {"axyz": "List (List K)", "idx": "List Int", "xyz": "List (List K)"}


def _row(i_code, out, tmp):
    return [f"Py.bind (Py.idx v.idx ({i_code})) fun {tmp} =>", f"Py.bind (Py.idx v.axyz {tmp}) fun {out} =>"]


# ---- core/node.py, core/path.py
spec(lean="nf_node_distance", module="AlgoNodeFeat", file="swcgeom/core/node.py", cls="Node", func="distance",
     params=["axyz", "self", "b"], num_tparams=["K"], fparams=_NORM, vars={"axyz": "List (List K)", "self": "Int", "b": "Int"}, ret="K",
     # GLUE: `Node.xyz()` = `np.array([self.x, self.y, self.z])`, the attributes being the columns of the attached table at the node's row
     subst={"self.xyz()": ("t_a", "List K", ["Py.bind (Py.idx v.axyz v.self) fun t_a =>"]),
            "b.xyz()": ("t_b", "List K", ["Py.bind (Py.idx v.axyz v.b) fun t_b =>"])},
     doc="`swcgeom/core/node.py::Node.distance` (both nodes are rows of one table whose coordinates are the (n, 3) array `axyz`)")
spec(lean="nf_path_length", module="AlgoNodeFeat", file=_PATH, cls="Path", func="length",
     params=["axyz", "idx"], num_tparams=["K"], fparams=_NORM, vars=dict(_PV), ret="K",
     # GLUE: `Path.xyz()` stacks `get_ndata(x|y|z)` = `attach.get_ndata(k)[self.idx]`: the rows `idx` of the attached coordinates
     stmt_subst={"xyz = self.xyz()": "xyz = axyz[idx]"},
     doc="`swcgeom/core/path.py::Path.length` (the path is the list `idx` of its rows in the table whose coordinates are `axyz`)")
spec(lean="nf_path_straight", module="AlgoNodeFeat", file=_PATH, cls="Path", func="straight_line_distance",
     params=["axyz", "idx"], num_tparams=["K"], fparams=_NORM, vars=dict(_PV), ret="K",
     # GLUE: node k of a path is row `idx[k]` (python indexing, so -1 is the last) of the attached table
     subst={"self.node(-1).xyz()": ("t_e", "List K", _row("-1", "t_e", "t_ei")),
            "self.node(0).xyz()": ("t_s", "List K", _row("0", "t_s", "t_si"))},
     doc="`swcgeom/core/path.py::Path.straight_line_distance`")
spec(lean="nf_path_tortuosity", module="AlgoNodeFeat", file=_PATH, cls="Path", func="tortuosity",
     params=["axyz", "idx"], num_tparams=["K"], fparams=["(F : Py.Fld K)"] + _NORM, vars=dict(_PV, length="K"), ret="K",
     doc="`swcgeom/core/path.py::Path.tortuosity`")
NF_CALLS["nf_path_tortuosity"] = {"self.length()": ("nf_path_length", ["axyz", "idx"]),
                                  "self.straight_line_distance()": ("nf_path_straight", ["axyz", "idx"])}


# ---- core/tree.py, core/swc.py
_T4 = {"id": "ids", "pid": "pids", "type": "types", "xyz": "axyz"}
_TV4 = {"ids": "List Int", "pids": "List Int", "types": "List Int", "axyz": "List (List K)"}
MODULE_IMPORTS["AlgoNodeFeat"].append("AlgoLMeasure")        # Tree.soma, SWCLike.number_of_edges
spec(lean="nf_number_of_nodes", module="AlgoNodeFeat", file="swcgeom/core/swc.py", cls="SWCLike", func="number_of_nodes",
     tree_method="number_of_nodes", params=["ids"], vars={"ids": "List Int"}, ret="Int", tree_cols={"self": {"id": "ids"}})
spec(lean="nf_tree_length", module="AlgoNodeFeat", file="swcgeom/core/tree.py", cls="Tree", func="length",
     params=["ids", "pids", "axyz"], num_tparams=["K"], fparams=_NORM,
     vars={"ids": "List Int", "pids": "List Int", "axyz": "List (List K)", "s": "List Int"}, ret="K",
     tree_cols={"self": {"id": "ids", "pid": "pids", "xyz": "axyz"}},
     doc="`swcgeom/core/tree.py::Tree.length` (the tree is its columns `ids`, `pids` and its coordinates `axyz`; a segment is its index array `[pid, id]`)")
NF_CALLS["nf_tree_length"] = {"self.get_segments()": ("tree_get_segments", ["ids", "pids"]),
                              "s.length()": ("nf_path_length", ["axyz", "s"])}

# ---- analysis/features.py: NodeFeatures
_NT = {"self.tree": _T4}
spec(lean="nf_node_count", module="AlgoNodeFeat", file=_FEAT, cls="NodeFeatures", func="get_count",
     params=["ids"], num_tparams=["K"], fparams=["(F : Py.Fld K)"], vars={"ids": "List Int"}, ret="List K", tree_cols={"self.tree": {"id": "ids"}},
     doc="`swcgeom/analysis/features.py::NodeFeatures.get_count`")
spec(lean="nf_radial_distance", module="AlgoNodeFeat", file=_FEAT, cls="NodeFeatures", func="get_radial_distance",
     params=["ids", "pids", "types", "axyz"], num_tparams=["K"], fparams=_NORM,
     vars=dict(_TV4, xyz="List (List K)", radial_distance="List K"), ret="List K", tree_cols=_NT,
     doc="`swcgeom/analysis/features.py::NodeFeatures.get_radial_distance`")
# the branch tree (`self._branch_tree`, a cached `BranchTree.from_tree(self.tree)`: translated in Gen/AlgoBranchTree.lean) is its two topology
# columns `bt_ids`, `bt_pids`
spec(lean="nf_assign_depth", module="AlgoNodeFeat", file=_FEAT, cls="NodeFeatures", func="get_branch_order", nested="assign_depth",
     params=["n", "pre_depth"], vars={"n": "Int", "pre_depth": "Option Int", "cur_order": "Int", "order": "List Int"}, ret="Int",
     captures=["order"], subst={"n.id": ("v.n", "Int")})
spec(lean="nf_branch_order", module="AlgoNodeFeat", file=_FEAT, cls="NodeFeatures", func="get_branch_order",
     params=["bt_ids", "bt_pids"], vars={"bt_ids": "List Int", "bt_pids": "List Int", "order": "List Int"}, ret="List Int", fuel=True,
     closures={"assign_depth": "nf_assign_depth"}, tree_cols={"self._branch_tree": {"id": "bt_ids", "pid": "bt_pids"}},
     doc="`swcgeom/analysis/features.py::NodeFeatures.get_branch_order` (the branch tree `self._branch_tree` is its columns `bt_ids`, `bt_pids`)")

# ---- _SubsetNodesFeatures / FurcationFeatures / TipFeatures (the object is its `nodes` mask and the tree of its NodeFeatures)
_FT = {"self._features.tree": _T4}
spec(lean="nf_furcation_nodes", module="AlgoNodeFeat", file=_FEAT, cls="FurcationFeatures", func="nodes",
     params=["ids", "pids"], vars={"ids": "List Int", "pids": "List Int", "n": "Node@self._features.tree"}, ret="List Bool",
     tree_cols={"self._features.tree": {"id": "ids", "pid": "pids"}},
     doc="`swcgeom/analysis/features.py::FurcationFeatures.nodes`")
spec(lean="nf_tip_nodes", module="AlgoNodeFeat", file=_FEAT, cls="TipFeatures", func="nodes",
     params=["ids", "pids"], vars={"ids": "List Int", "pids": "List Int", "n": "Node@self._features.tree"}, ret="List Bool",
     tree_cols={"self._features.tree": {"id": "ids", "pid": "pids"}},
     doc="`swcgeom/analysis/features.py::TipFeatures.nodes`")
spec(lean="nf_subset_count", module="AlgoNodeFeat", file=_FEAT, cls="_SubsetNodesFeatures", func="get_count",
     params=["nodes"], num_tparams=["K"], fparams=["(F : Py.Fld K)"], vars={"nodes": "List Bool"}, ret="List K",
     subst={"self.nodes": ("v.nodes", "List Bool")},
     doc="`swcgeom/analysis/features.py::_SubsetNodesFeatures.get_count` (`self.nodes` is the parameter `nodes`)")
spec(lean="nf_subset_radial_distance", module="AlgoNodeFeat", file=_FEAT, cls="_SubsetNodesFeatures", func="get_radial_distance",
     params=["ids", "pids", "types", "axyz", "nodes"], num_tparams=["K"], fparams=_NORM, vars=dict(_TV4, nodes="List Bool"), ret="List K",
     subst={"self.nodes": ("v.nodes", "List Bool")},
     doc="`swcgeom/analysis/features.py::_SubsetNodesFeatures.get_radial_distance` (`self.nodes` is the parameter `nodes`, `self._features` the "
         "NodeFeatures of the tree `ids`, `pids`, `types`, `axyz`)")
NF_CALLS["nf_subset_radial_distance"] = {"self._features.get_radial_distance()": ("nf_radial_distance", ["ids", "pids", "types", "axyz"])}

# ---- PathFeatures / BranchFeatures
_LV = {"ids": "List Int", "pids": "List Int", "axyz": "List (List K)"}
for _cls, _prop, _get, _el in (("PathFeatures", "_paths", "get_paths", "path"), ("BranchFeatures", "_branches", "get_branches", "br")):
    _p = _cls[0].lower() + "f"
    spec(lean=f"nf_{_p}{_prop}", module="AlgoNodeFeat", file=_FEAT, cls=_cls, func=_prop, params=["ids", "pids"], fuel=True,
         vars={"ids": "List Int", "pids": "List Int"}, ret="List (List Int)",
         doc=f"`swcgeom/analysis/features.py::{_cls}.{_prop}` (cached property)")
    NF_CALLS[f"nf_{_p}{_prop}"] = {f"self.tree.{_get}()": (_get, ["ids", "pids"])}
    spec(lean=f"nf_{_p}_length", module="AlgoNodeFeat", file=_FEAT, cls=_cls, func="get_length", params=["ids", "pids", "axyz"], fuel=True,
         num_tparams=["K"], fparams=_NORM, vars=dict(_LV, length="List K", **{_el: "List Int"}), ret="List K",
         doc=f"`swcgeom/analysis/features.py::{_cls}.get_length`")
    NF_CALLS[f"nf_{_p}_length"] = {f"self.{_prop}": (f"nf_{_p}{_prop}", ["ids", "pids"]), f"{_el}.length()": ("nf_path_length", ["axyz", _el])}
    spec(lean=f"nf_{_p}_tortuosity", module="AlgoNodeFeat", file=_FEAT, cls=_cls, func="get_tortuosity", params=["ids", "pids", "axyz"], fuel=True,
         num_tparams=["K"], fparams=["(F : Py.Fld K)"] + _NORM, vars=dict(_LV, **{_el: "List Int"}), ret="List K",
         doc=f"`swcgeom/analysis/features.py::{_cls}.get_tortuosity`")
    NF_CALLS[f"nf_{_p}_tortuosity"] = {f"self.{_prop}": (f"nf_{_p}{_prop}", ["ids", "pids"]),
                                       f"{_el}.tortuosity()": ("nf_path_tortuosity", ["axyz", _el])}

# ---- BranchFeatures.calc_angle / get_angle
_ACOS = ["(acos : K → K)"]
spec(lean="nf_calc_angle", module="AlgoNodeFeat", file=_FEAT, cls="BranchFeatures", func="calc_angle",
     params=["axyz", "branches", "eps"], num_tparams=["K"], fparams=["(F : Py.Fld K)"] + _NORM + _ACOS,
     vars={"axyz": "List (List K)", "branches": "List (List Int)", "eps": "K", "br": "List Int", "vector": "List (List K)",
           "vector_dot": "List (List K)", "vector_norm": "List (List K)", "vector_norm_dot": "List (List K)", "degenerate": "List (List Bool)", "arccos": "List (List K)",
           "angle": "List (List K)"}, ret="List (List K)",
     # GLUE: member k of a branch (`Path.__getitem__` -> `Path.node`) is row `br.idx[k]` of the attached table; `.xyz()` is its coordinate row
     subst={"br[-1].xyz()": ("t_e", "List K", ["Py.bind (Py.idx v.br (-1)) fun t_ei =>", "Py.bind (Py.idx v.axyz t_ei) fun t_e =>"]),
            "br[0].xyz()": ("t_s", "List K", ["Py.bind (Py.idx v.br (0)) fun t_si =>", "Py.bind (Py.idx v.axyz t_si) fun t_s =>"])},
     doc="`swcgeom/analysis/features.py::BranchFeatures.calc_angle` (a branch is the list of its rows in the table whose coordinates are `axyz`)")
spec(lean="nf_bf_angle", module="AlgoNodeFeat", file=_FEAT, cls="BranchFeatures", func="get_angle",
     params=["ids", "pids", "axyz", "eps"], num_tparams=["K"], fparams=["(F : Py.Fld K)"] + _NORM + _ACOS, fuel=True,
     vars=dict(_LV, eps="K"), ret="List (List K)", doc="`swcgeom/analysis/features.py::BranchFeatures.get_angle`")
NF_CALLS["nf_bf_angle"] = {"self._branches": ("nf_bf_branches", ["ids", "pids"]),
                           "self.calc_angle(self._branches, eps=eps)": ("nf_calc_angle", ["axyz", "self._branches", "eps"])}
