# C02 (T6, `parseloop`): the read loop of `swcgeom/core/swc_utils/io.py::parse_swc` with its context (`with FileReader(...) as f:`,
# `try … except UnicodeDecodeError`, the three-way classification, the once-only warning, the per-column append, the `raise ValueError`) and
# `swcgeom/utils/file.py::FileReader.__exit__`  ->  Gen/AlgoParse.lean.
#
# The TEXT level is abstracted by pure function parameters (type parameters: `L` a line, `Val` a converted field, `C` a comment text):
#   rowOf     : L → Option (List Val × Bool)   `re_swc.search(line)`: the match object = (the converted groups 1..k, "the last group is non-empty")
#   commentOf : L → Option C                   `RE_COMMENT.match(line)`: the match object = the comment text it leads to
#                                              (`line[len(match.group(0)):].removesuffix("\n")`)
#   isHeader  : C → Bool                       `comment.lstrip().startswith(ignored_comment)`
#   blank     : L → Bool                       `line.isspace()`
# and the file by `stream : Py.Stream L` (the lines the iterator yields, then possibly a `UnicodeDecodeError`).
#
# TRUSTED GLUE (every entry replaces source text by its meaning on the modelled data; a change of the text makes the key miss = translator failure):
#   subst       re_swc.search(line) / RE_COMMENT.match(line) / line.isspace() / comment.lstrip().startswith(ignored_comment)   (the four parameters)
#               match.group(last_group)              -> second component of the re_swc match
#               trans(match.group(i + 1))            -> fields[i] of the re_swc match (IndexError if there is no such group)
#               line[len(match.group(0)):].removesuffix('\n')  -> the comment text of the RE_COMMENT match
#               names.cols()                         -> the parameter `cols` (the seven standard column names)
#               int, float                           -> `()` (the conversions are applied inside `rowOf`; `transforms` only fixes HOW MANY columns are filled)
#               FileReader(fname, encoding=encoding) -> the parameter `reader` (the reader object after construction)
#               FileReader(fname, encoding=encoding).__enter__() -> the parameter `stream`
#   skip_stmts  extras = list(extra_cols) if extra_cols else []   (`extras` is a parameter: the list of extra column names, [] for None / empty)
#               re_swc_cols = …, re_swc_cols_str = …, re_swc = re.compile(…)   (the regex; its text is pinned by C02.consts_pinned from Gen/Consts)
#               ignored_comment = ' '.join(names.cols())           (only used inside `isHeader`)
#   FileReader.__exit__:  stmt_subst  self.f.close() -> self.closed = True   (the file object is `self.f : Option Unit` + the flag `closed`)

STRUCTS["FileReader"] = {"f": "Option Unit", "closed": "Bool"}
MODULE_STRUCTS["AlgoParse"] = ["FileReader"]

spec(lean="file_reader_exit", module="AlgoParse", file="swcgeom/utils/file.py", cls="FileReader", func="__exit__", callee=["__exit__#FileReader"],
     params=["self", "exc_type", "exc_val", "exc_tb"],
     vars={"self": "FileReader", "exc_type": "Option Exc", "exc_val": "Option Exc", "exc_tb": "Option Exc"},
     ret="Bool", out=["self"], stmt_subst={"self.f.close()": "self.closed = True"},
     doc="`swcgeom/utils/file.py::FileReader.__exit__` (the file object is `self.f` + the flag `closed`; the three arguments are the exception "
         "the `with` body raised, or None)")

_ROW = "Option ((List Val) × Bool)"
spec(lean="parse_swc", module="AlgoParse", file="swcgeom/core/swc_utils/io.py", func="parse_swc",
     params=["cols", "extras", "reader", "stream"], tparams=["L", "Val", "C"], raises=True,
     fparams=["(rowOf : L → Option ((List Val) × Bool))", "(commentOf : L → Option C)", "(isHeader : C → Bool)", "(blank : L → Bool)"],
     vars={"cols": "List String", "extras": "List String", "reader": "FileReader", "stream": "Stream L",
           "keys": "List String", "vals": "List (List Val)", "transforms": "List Unit", "last_group": "Int", "flag": "Bool",
           "comments": "List C", "f": "Stream L", "i": "Int", "line": "L", "match": _ROW, "match#2": "Option C", "trans": "Unit",
           "comment": "C", "warnings_": "List Exc", "df": "Dict String (List Val)"},
     ret="(Dict String (List Val)) × (List C)", out=["warnings_", "reader"],
     subst={"re_swc.search(line)": ("(rowOf v.line)", _ROW),
            "RE_COMMENT.match(line)": ("(commentOf v.line)", "Option C"),
            "line.isspace()": ("(blank v.line)", "Bool"),
            "comment.lstrip().startswith(ignored_comment)": ("(isHeader v.comment)", "Bool"),
            "match.group(last_group)": ("m_.2", "Bool", ["Py.bind (v.match_) fun m_ =>"]),
            "trans(match.group(i + 1))": ("fld_", "Val", ["Py.bind (v.match_) fun m_ =>", "Py.bind (Py.idx m_.1 v.i) fun fld_ =>"]),
            "line[len(match.group(0)):].removesuffix('\\n')": ("c_", "C", ["Py.bind (v.match_2) fun c_ =>"]),
            "names.cols()": ("v.cols", "List String"),
            "int": ("()", "Unit"), "float": ("()", "Unit"),
            "FileReader(fname, encoding=encoding)": ("v.reader", "FileReader"),
            "FileReader(fname, encoding=encoding).__enter__()": ("v.stream", "Stream L")},
     skip_stmts=["extras = list(extra_cols) if extra_cols else []",
                 "re_swc_cols = ['([0-9]+)', '([0-9]+)', RE_FLOAT, RE_FLOAT, RE_FLOAT, RE_FLOAT, '(-?[0-9]+)'] + [RE_FLOAT for _ in extras]",
                 r"re_swc_cols_str = '\\s+'.join(re_swc_cols)",
                 r"re_swc = re.compile(f'^\\s*{re_swc_cols_str}((?:\\s+[+-.0-9eE]+)*)\\s*$')",
                 "ignored_comment = ' '.join(names.cols())"],
     doc="`swcgeom/core/swc_utils/io.py::parse_swc` with the text level abstracted (`rowOf` = `re_swc.search`, `commentOf` = `RE_COMMENT.match` + the "
         "comment text, `isHeader`, `blank` = `str.isspace`), the file as a stream of lines that may end in a UnicodeDecodeError, the DataFrame as the "
         "dictionary of its columns; `warnings_` is the log of `warnings.warn` calls")
