# C09 (session 4, T11 `views`): the indexing / window logic of the view classes  ->  Gen/AlgoViews.lean
#   swcgeom/core/swc.py      DictSWC.get_ndata / keys / copy / __init__, SWCLike.id / pid / number_of_nodes / __len__
#   swcgeom/core/node.py     Node.__init__ / __getitem__ / __setitem__          (twice: a node of a tree / DictSWC, a node of a Path)
#   swcgeom/core/tree.py     Tree.node / __getitem__ (int, slice, str) / get_compartments
#   swcgeom/core/path.py     Path.__init__ / __len__ / get_ndata / keys / origin_id / id / pid / node / __getitem__ (int, slice, str) / detach
#   swcgeom/core/branch.py   Branch.get_compartments;  swcgeom/core/compartment.py  Compartment.__init__
#
# DATA.  One integer-valued column per key.  An object is a record (STRUCTS below):
#   DictSWC  = {ndata : dict str -> column, names}        (a Tree is a DictSWC: it inherits get_ndata / copy, and id / pid / __len__ from SWCLike)
#   Path     = {attach : DictSWC, idx, names}             (Path / Branch / Compartment over a tree or a DictSWC)
#   PPath    = {attach : Path, idx, names}                (a Compartment of a BRANCH: its attach is the branch)
#   TNode / PNode = {attach : DictSWC / Path, idx, names} (Node)
#   SWCNames = the two column names the translated code reads (`names.id`, `names.pid`)
# A record holds its `attach` BY VALUE.  TRUSTED (aliasing assumption, exercised by the c09.history correspondence and np.shares_memory):
# in Python `attach` is a REFERENCE; a caller models that by handing in the owner's current value at every access and by storing
# `self.attach` back after a call that updates `self` (Model/AlgoRunViews.lean does exactly that, Refine/Views.lean states it).
#
# HOOKS (general constructs added to the translator from here; all are only active for modules listed in HOOK_MODULES):
#   * method / `len` / subscript dispatch by the STATIC record type of the receiver expression: `E.m(a)` -> the translation registered as
#     `m#<Type>`, `len(E)` -> `__len__#<Type>`, `E[k]` -> `__getitem__#<Type>#<type of k>` (a literal slice `E[a:b:c]` is the Slice value)
#   * `isinstance(x, C)` on a variable of declared type Int / String / Slice is decided statically (only the live branch is translated):
#     a function with a union-typed parameter is translated once per member type (like `absent=` for optional parameters)
#   * `s.indices(n)` on a Slice (Py.sliceIndices = CPython's slice.indices), `range(*t)` on an int triple (Py.range3), `range(a, b)` /
#     `np.arange(a, b)` (Py.range2), `d.keys()` (Py.Dict.keys), `deepcopy(x)` = x as a VALUE (a fresh object: aliasing assumption above)
#   * `@property` getters of a record's class (`n.pid` -> the getter's `return` expression with `self` := `n`), read from the current source
#   * constructor calls listed per spec in VIEW_CTORS: `C(args)` = the translated `C.__init__(fresh object, args)`; "<list>" = a `list`
#     subclass built from an iterable (`Compartments(...)`: the list of its members)
#   * a store THROUGH an accessor, `E.m(a)[i] = x`: the accessor `m` (a translated single-`return` method) is inlined from its CURRENT source;
#     if what it returns is a place (a chain of record fields / dict items starting at a variable: `self.attach.ndata[k]`, the stored array
#     ITSELF) the store updates that place; if it returns the result of fancy indexing `A[I]` (I an integer array: numpy makes a NEW array)
#     the store goes to a temporary and is lost (it can still raise IndexError); anything else is a translator failure.
#
# TRUSTED GLUE (source text replaced by its meaning on the modelled data; a changed text makes the key miss = translator failure):
#   skip_stmts  `super().__init__()` (SWCLike.__init__ / object.__init__: sets `types`), `self.source = …`, `self.comments = …` (texts, not modelled)
#   subst       `get_names(names)` -> `names` (the table handed in; `None` = the default table is resolved by the caller)
#   stmt_subst  Path.detach: `attact = DictSWC(**{…}, source=self.source, names=self.names)` -> `attact = DictSWC({…}, self.names)`
#               (`**kwargs` of DictSWC.__init__ is the dict literal itself)
#   call_alias  Compartment.__init__: `super().__init__(a, b)` is `Path.__init__(self, a, b)`
#   method resolution (which `def` a call reaches) is the `file` / `cls` / `func` of each spec: Tree inherits get_ndata / copy from DictSWC and
#   id / pid / number_of_nodes / __len__ from SWCLike; Branch inherits everything translated here from Path except get_compartments
#   (Branch.get_ndata / keys repeat Path's text).

MODULE_MODEL_IMPORTS["AlgoViews"] = ["PyViews"]
HOOK_MODULES = {"AlgoViews"}

STRUCTS["SWCNames"] = {"id": "String", "pid": "String"}
STRUCTS["DictSWC"] = {"ndata": "Dict String (List Int)", "names": "SWCNames"}
STRUCTS["Path"] = {"attach": "DictSWC", "idx": "List Int", "names": "SWCNames"}
STRUCTS["PPath"] = {"attach": "Path", "idx": "List Int", "names": "SWCNames"}
STRUCTS["TNode"] = {"attach": "DictSWC", "idx": "Int", "names": "SWCNames"}
STRUCTS["PNode"] = {"attach": "Path", "idx": "Int", "names": "SWCNames"}
MODULE_STRUCTS["AlgoViews"] = ["SWCNames", "DictSWC", "Path", "PPath", "TNode", "PNode"]

VIEW_CLASS = {"TNode": ("swcgeom/core/node.py", "Node"), "PNode": ("swcgeom/core/node.py", "Node")}   # record type -> class whose @property getters apply
VIEW_CTORS = {}        # lean name of a spec -> {constructor call text: lean name of the translated __init__ | "<list>"}
PY_CLASSES = {"Int": {"int", "np.integer"}, "String": {"str"}, "Slice": {"slice"}}                  # declared type -> the Python classes of its values


def _show_slice(t):
    return "Py.Slice" if t == "Slice" else None


SHOW_TYPE_HOOKS.append(_show_slice)


def _on(tr):
    return tr.spec.module in HOOK_MODULES


def _rec(tr, e):
    """(steps, code, type) of an expression whose static type is a record, else None"""
    try:
        s, c, t = tr.tr(e)
    except (Untranslatable, KeyError, AttributeError, TypeError, AssertionError):
        return None
    return (s, c, t) if isinstance(t, str) and t in STRUCTS else None


def _place(tr, e):
    """(steps, read code, type, writer) of a PLACE: a variable, a field of a record place, an item of a dict place"""
    if isinstance(e, ast.Name) and (e.id in tr.vars or e.id in tr.extra_vars):
        nm = lname(e.id)
        return [], f"v.{nm}", tr.var_type(e.id), (lambda c: f"{{ v with {nm} := {c} }}")
    if isinstance(e, ast.Attribute):
        p = _place(tr, e.value)
        if p and isinstance(p[2], str) and p[2] in STRUCTS and e.attr in STRUCTS[p[2]]:
            s, c, t, w = p
            a = lname(e.attr)
            return s, f"{c}.{a}", parse_type(STRUCTS[t][e.attr]), (lambda x: w(f"{{ {c} with {a} := {x} }}"))
    if isinstance(e, ast.Subscript) and not isinstance(e.slice, (ast.Slice, ast.Tuple)):
        p = _place(tr, e.value)
        if p and isinstance(p[2], tuple) and p[2][0] == "Dict":
            s, c, t, w = p
            sk, kc, kt = tr.tr(e.slice)
            if kt == t[1]:
                n = tr.bindname()
                return s + sk + [f"Py.bind (Py.Dict.get? {c} {kc}) fun {n} =>"], n, t[2], (lambda x: w(f"(Py.Dict.set {c} {kc} {x})"))
    return None


def _call_method(tr, callee, recv, s0, rc, args, kw):
    """call of a translated method `callee` on the receiver `recv` (code `rc`)"""
    steps, codes = list(s0), [rc]
    given = dict(zip(callee.params[1:], args))
    given.update(kw)
    for pn in callee.params[1:]:
        if pn not in given:
            raise Untranslatable(f"{tr.spec.lean}: call of {callee.lean} gives no `{pn}`")
        pt = parse_type(callee.vars[pn])
        s, c, t = tr.tr(given[pn], pt)
        if t != pt:
            c = tr.coerce(c, t, pt)
        steps += s
        codes.append(c)
    if callee.fuel or callee.callbacks:
        raise Untranslatable(f"{tr.spec.lean}: {callee.lean} needs fuel / callbacks")
    n = tr.bindname()
    call = f"{callee.lean} {' '.join(codes)}"
    if callee.out == ["self"]:
        p = _place(tr, recv)
        if p is None or p[0]:
            raise Untranslatable(f"{tr.spec.lean}: {callee.lean} updates its receiver `{ast.unparse(recv)}`, which is not a variable / field")
        steps.append(f"Py.bind ({call}) fun {n} => let v := {p[3](n + '.1')};")
        return steps, f"{n}.2", parse_type(callee.ret)
    if callee.out:
        raise Untranslatable(f"{tr.spec.lean}: out-parameters of {callee.lean}")
    steps.append(f"Py.bind ({call}) fun {n} =>")
    return steps, n, parse_type(callee.ret)


def _slice_value(tr, sl):
    steps, cs = [], []
    for b in (sl.lower, sl.upper, sl.step):
        if b is None:
            cs.append("(none : Option Int)")
            continue
        s, c, t = tr.tr(b)
        if t == "Int":
            c = f"(some {c})"
        elif t != ("Option", "Int"):
            raise Untranslatable(f"{tr.spec.lean}: slice member `{ast.unparse(b)}` of type {t}")
        steps += s
        cs.append(c)
    return steps, f"(({cs[0]}, {cs[1]}, {cs[2]}) : Py.Slice)", "Slice"


def _getter(struct_t, attr):
    """the `return` expression of the @property getter `attr` of the class of a record type, from the current source"""
    if struct_t not in VIEW_CLASS:
        return None
    file, cls = VIEW_CLASS[struct_t]
    p = REPO / file
    if p not in _AST_CACHE:
        _AST_CACHE[p] = ast.parse(p.read_text())
    scope = _AST_CACHE[p].body
    for part in cls.split("."):
        scope = next((n.body for n in scope if isinstance(n, ast.ClassDef) and n.name == part), [])
    for n in scope:
        if (isinstance(n, ast.FunctionDef) and n.name == attr and any(isinstance(d, ast.Name) and d.id == "property" for d in n.decorator_list)
                and len(n.args.args) == 1):
            body = [b for b in n.body if not (isinstance(b, ast.Expr) and isinstance(b.value, ast.Constant))]
            if len(body) == 1 and isinstance(body[0], ast.Return) and body[0].value is not None:
                return n.args.args[0].arg, body[0].value
    return None


def _subst_names(expr, mapping):
    import copy

    class R(ast.NodeTransformer):
        def visit_Name(self, nd):
            return copy.deepcopy(mapping[nd.id]) if nd.id in mapping else nd
    out = R().visit(copy.deepcopy(expr))
    ast.fix_missing_locations(out)
    return out


def _inline_accessor(tr, call):
    """`E.m(args)` with `m` a translated method of E's record type whose body is one `return R`: R with the parameters replaced, else None"""
    if not (isinstance(call, ast.Call) and isinstance(call.func, ast.Attribute) and not call.keywords):
        return None
    r = _rec(tr, call.func.value)
    if r is None or f"{call.func.attr}#{r[2]}" not in tr.table:
        return None
    callee = tr.table[f"{call.func.attr}#{r[2]}"]
    if callee.subst or callee.stmt_subst or callee.skip_stmts or callee.call_alias:
        return None
    p = REPO / callee.file
    if p not in _AST_CACHE:
        _AST_CACHE[p] = ast.parse(p.read_text())
    fdef = find_def(_AST_CACHE[p], callee.cls, callee.func)
    body = [b for b in fdef.body if not (isinstance(b, ast.Expr) and isinstance(b.value, ast.Constant))]
    names = [a.arg for a in fdef.args.args]
    if not (len(body) == 1 and isinstance(body[0], ast.Return) and body[0].value is not None and len(names) == 1 + len(call.args)):
        return None
    return _subst_names(body[0].value, dict(zip(names, [call.func.value] + list(call.args))))


def _views_expr(tr, e, want):
    if not _on(tr):
        return None
    if isinstance(e, ast.Call):
        f = ast.unparse(e.func)
        kw = {k.arg: k.value for k in e.keywords}
        if f == "deepcopy" and len(e.args) == 1 and not kw:
            return tr.tr(e.args[0], want)
        if f == "len" and len(e.args) == 1 and not kw:
            r = _rec(tr, e.args[0])
            if r is not None and f"__len__#{r[2]}" in tr.table:
                return _call_method(tr, tr.table[f"__len__#{r[2]}"], e.args[0], r[0], r[1], [], {})
        if f == "range" and len(e.args) == 1 and isinstance(e.args[0], ast.Starred) and not kw:
            s, c, t = tr.tr(e.args[0].value)
            if t == ("Prod", "Int", ("Prod", "Int", "Int")):
                n = tr.bindname()
                return s + [f"Py.bind (Py.range3 {c}.1 {c}.2.1 {c}.2.2) fun {n} =>"], n, ("List", "Int")
        if f in ("range", "np.arange") and len(e.args) == 2 and set(kw) <= {"dtype"} and not any(isinstance(a, ast.Starred) for a in e.args) \
                and not (f == "np.arange" and isinstance(e.args[0], ast.Constant) and e.args[0].value == 0):
            s1, a, ta = tr.tr(e.args[0])
            s2, b, tb = tr.tr(e.args[1])
            if ta == "Int" and tb == "Int":
                return s1 + s2, f"(Py.range2 {a} {b})", ("List", "Int")
        if isinstance(e.func, ast.Attribute):
            meth = e.func.attr
            if meth == "keys" and not e.args and not kw:
                try:
                    s, c, t = tr.tr(e.func.value)
                except Untranslatable:
                    t = None
                if isinstance(t, tuple) and t[0] == "Dict":
                    return s, f"(Py.Dict.keys {c})", ("List", t[1])
            if meth == "indices" and len(e.args) == 1 and not kw:
                try:
                    s, c, t = tr.tr(e.func.value)
                except Untranslatable:
                    t = None
                if t == "Slice":
                    s1, nc, nt = tr.tr(e.args[0])
                    if nt == "Int":
                        n = tr.bindname()
                        return s + s1 + [f"Py.bind (Py.sliceIndices {c} {nc}) fun {n} =>"], n, ("Prod", "Int", ("Prod", "Int", "Int"))
            r = _rec(tr, e.func.value)
            if r is not None and f"{meth}#{r[2]}" in tr.table:
                return _call_method(tr, tr.table[f"{meth}#{r[2]}"], e.func.value, r[0], r[1], e.args, kw)
        return None
    if isinstance(e, ast.Subscript) and isinstance(e.ctx, ast.Load):
        r = _rec(tr, e.value)
        if r is not None:
            if isinstance(e.slice, ast.Slice):
                sk, kc, kt = _slice_value(tr, e.slice)
                karg = None
            else:
                sk, kc, kt = tr.tr(e.slice)
                karg = e.slice
            key = f"__getitem__#{r[2]}#{kt}"
            if isinstance(kt, str) and key in tr.table:
                callee = tr.table[key]
                n = tr.bindname()
                if callee.out or callee.fuel or callee.callbacks or len(callee.params) != 2:
                    raise Untranslatable(f"{tr.spec.lean}: signature of {callee.lean}")
                return r[0] + sk + [f"Py.bind ({callee.lean} {r[1]} {kc}) fun {n} =>"], n, parse_type(callee.ret)
        return None
    if isinstance(e, ast.Attribute) and isinstance(e.ctx, ast.Load):
        r = _rec(tr, e.value)
        if r is not None and e.attr not in STRUCTS[r[2]]:
            g = _getter(r[2], e.attr)
            if g is not None:
                return tr.tr(_subst_names(g[1], {g[0]: e.value}), want)
        return None
    return None


def _ctor(tr, callee, args, kw):
    """`C(args)`: the translated `C.__init__` applied to a fresh object"""
    st = callee.vars["self"]
    steps, codes = [], [f"(default : {st})"]
    given = dict(zip(callee.params[1:], args))
    given.update(kw)
    for pn in callee.params[1:]:
        if pn not in given:
            raise Untranslatable(f"{tr.spec.lean}: constructor {callee.lean} gets no `{pn}`")
        pt = parse_type(callee.vars[pn])
        s, c, t = tr.tr(given[pn], pt)
        if t != pt:
            c = tr.coerce(c, t, pt)
        steps += s
        codes.append(c)
    if callee.out != ["self"] or callee.fuel or callee.callbacks:
        raise Untranslatable(f"{tr.spec.lean}: signature of {callee.lean}")
    n = tr.bindname()
    return steps + [f"Py.bind ({callee.lean} {' '.join(codes)}) fun {n} =>"], f"{n}.1", st


def _views_expr_ctor(tr, e, want):
    if not _on(tr) or not isinstance(e, ast.Call):
        return None
    f = ast.unparse(e.func)
    ctors = VIEW_CTORS.get(tr.spec.lean, {})
    if f not in ctors:
        return None
    if ctors[f] == "<list>":
        if len(e.args) != 1 or e.keywords:
            raise Untranslatable(f"{tr.spec.lean}: `{ast.unparse(e)}`")
        return tr.tr(e.args[0], want)
    return _ctor(tr, by_lean_global[ctors[f]], e.args, {k.arg: k.value for k in e.keywords})


EXPR_HOOKS.append(_views_expr_ctor)
EXPR_HOOKS.append(_views_expr)


def _views_stmt(tr, s):
    if not _on(tr):
        return None
    # `if isinstance(x, C):` on a variable whose declared type decides it
    if isinstance(s, ast.If):
        t = s.test
        if (isinstance(t, ast.Call) and ast.unparse(t.func) == "isinstance" and len(t.args) == 2 and isinstance(t.args[0], ast.Name)
                and tr.vars.get(t.args[0].id) in PY_CLASSES):
            cls = [ast.unparse(x) for x in (t.args[1].elts if isinstance(t.args[1], ast.Tuple) else [t.args[1]])]
            allc = set().union(*PY_CLASSES.values())
            if not set(cls) <= allc:
                raise Untranslatable(f"{tr.spec.lean}: `{ast.unparse(t)}`: unknown class")
            live = s.body if set(cls) & PY_CLASSES[tr.vars[t.args[0].id]] else s.orelse
            return tr.block(live) if live else "Py.skip"
        return None
    # `E.m(a)[i] = x`: a store through an accessor
    if (isinstance(s, ast.Assign) and len(s.targets) == 1 and isinstance(s.targets[0], ast.Subscript) and isinstance(s.targets[0].value, ast.Call)
            and not isinstance(s.targets[0].slice, (ast.Slice, ast.Tuple))):
        tgt = s.targets[0]
        R = _inline_accessor(tr, tgt.value)
        if R is None:
            return None
        # CPython evaluates the right-hand side first, then the target's container, then its index
        s2, x, tx = tr.tr(s.value)
        for _ in range(4):
            p = _place(tr, R)
            if p is not None:
                break
            nxt = _inline_accessor(tr, R)
            if nxt is None:
                break
            R = nxt
        if p is not None:
            s0, c, t, w = p
            if not (isinstance(t, tuple) and t[0] == "List" and tx == t[1]):
                raise Untranslatable(f"{tr.spec.lean}: `{ast.unparse(s)}` stores {tx} into {t}")
            s1, i, ti = tr.tr(tgt.slice)
            if ti != "Int":
                raise Untranslatable(f"{tr.spec.lean}: index of `{ast.unparse(tgt)}`")
            n = tr.bindname()
            return tr.chain(s2 + s0 + s1 + [f"Py.bind (Py.setIdx {c} {i} {x}) fun {n} =>"], ".next " + w(n))
        fresh = False
        if isinstance(R, ast.Subscript) and not isinstance(R.slice, (ast.Slice, ast.Tuple)):
            try:
                _, _, ti = tr.tr(R.slice)
            except Untranslatable:
                ti = None
            fresh = ti == ("List", "Int")           # fancy indexing: a NEW array
        if not fresh:
            raise Untranslatable(f"{tr.spec.lean}: `{ast.unparse(s)}`: cannot tell whether `{ast.unparse(R)}` is the stored array or a new one")
        s0, c, t = tr.tr(tgt.value)
        if not (isinstance(t, tuple) and t[0] == "List" and tx == t[1]):
            raise Untranslatable(f"{tr.spec.lean}: `{ast.unparse(s)}` stores {tx} into {t}")
        s1, i, ti = tr.tr(tgt.slice)
        n = tr.bindname()
        return tr.chain(s2 + s0 + s1 + [f"Py.bind (Py.setIdx {c} {i} {x}) fun {n} =>"], ".next v")
    return None


STMT_HOOKS.append(_views_stmt)

# ----------------------------------------------------------------------------- the functions
_SWC = "swcgeom/core/swc.py"
_NODE = "swcgeom/core/node.py"
_PATH = "swcgeom/core/path.py"
_V = "AlgoViews"
_SKIP_INIT = ["super().__init__()"]


def _vspec(key=None, ctors=None, **kw):
    f = spec(module=_V, **kw)
    for k in ([key] if isinstance(key, str) else key or []):
        CALLEES[k] = f.lean
    if ctors:
        VIEW_CTORS[f.lean] = ctors
    return f


# --- DictSWC / SWCLike (also: a Tree)
_vspec("get_ndata#DictSWC", lean="swc_get_ndata", file=_SWC, cls="DictSWC", func="get_ndata", params=["self", "key"],
       vars={"self": "DictSWC", "key": "String"}, ret="List Int")
_vspec("keys#DictSWC", lean="swc_keys", file=_SWC, cls="DictSWC", func="keys", params=["self"], vars={"self": "DictSWC"}, ret="List String")
_vspec("id#DictSWC", lean="swc_id", file=_SWC, cls="SWCLike", func="id", params=["self"], vars={"self": "DictSWC"}, ret="List Int")
_vspec("pid#DictSWC", lean="swc_pid", file=_SWC, cls="SWCLike", func="pid", params=["self"], vars={"self": "DictSWC"}, ret="List Int")
_vspec("number_of_nodes#DictSWC", lean="swc_number_of_nodes", file=_SWC, cls="SWCLike", func="number_of_nodes", params=["self"],
       vars={"self": "DictSWC"}, ret="Int")
_vspec("__len__#DictSWC", lean="swc_len", file=_SWC, cls="SWCLike", func="__len__", params=["self"], vars={"self": "DictSWC"}, ret="Int")
_vspec("copy#DictSWC", lean="swc_copy", file=_SWC, cls="DictSWC", func="copy", params=["self"], vars={"self": "DictSWC"}, ret="DictSWC",
       doc="`swcgeom/core/swc.py::DictSWC.copy` (`deepcopy` = the same VALUE in fresh storage: the result shares nothing with `self`)")
_vspec(lean="dictswc_init", file=_SWC, cls="DictSWC", func="__init__", params=["self", "kwargs", "names"],
       vars={"self": "DictSWC", "kwargs": "Dict String (List Int)", "names": "SWCNames"}, ret="Unit", out=["self"],
       skip_stmts=_SKIP_INIT + ["self.source = source", "self.comments = list(comments) if comments is not None else []"],
       subst={"get_names(names)": ("v.names", "SWCNames")},
       doc="`swcgeom/core/swc.py::DictSWC.__init__` (`**kwargs` = the dict of columns; `source` / `comments` are texts, not modelled)")

# --- Node over a tree / DictSWC
_vspec(lean="tnode_init", file=_NODE, cls="Node", func="__init__", params=["self", "attach", "idx"],
       vars={"self": "TNode", "attach": "DictSWC", "idx": "Int"}, ret="Unit", out=["self"], skip_stmts=_SKIP_INIT)
_vspec(["__getitem__#TNode#String", "__getitem__#TNode"], lean="tnode_getitem", file=_NODE, cls="Node", func="__getitem__", params=["self", "key"],
       vars={"self": "TNode", "key": "String"}, ret="Int")
_vspec("__setitem__#TNode", lean="tnode_setitem", file=_NODE, cls="Node", func="__setitem__", params=["self", "k", "v"],
       vars={"self": "TNode", "k": "String", "v": "Int"}, ret="Unit", out=["self"],
       doc="`swcgeom/core/node.py::Node.__setitem__` on a node of a tree / DictSWC: `attach.get_ndata(k)` is the stored array itself, the store "
           "lands in `self.attach` (returned with `self`)")
_TREE_PY = "swcgeom/core/tree.py"
_vspec("node#DictSWC", lean="tree_node", file=_TREE_PY, cls="Tree", func="node", params=["self", "idx"], vars={"self": "DictSWC", "idx": "Int"},
       ret="TNode", ctors={"self.Node": "tnode_init"})
_vspec("__getitem__#DictSWC#Int", lean="tree_getitem_int", file=_TREE_PY, cls="Tree", func="__getitem__", params=["self", "key"],
       vars={"self": "DictSWC", "key": "Int", "length": "Int"}, ret="TNode", doc="`swcgeom/core/tree.py::Tree.__getitem__` for an `int` key")
_vspec("__getitem__#DictSWC#Slice", lean="tree_getitem_slice", file=_TREE_PY, cls="Tree", func="__getitem__", params=["self", "key"],
       vars={"self": "DictSWC", "key": "Slice", "i": "Int"}, ret="List TNode", doc="`swcgeom/core/tree.py::Tree.__getitem__` for a `slice` key")
_vspec("__getitem__#DictSWC#String", lean="tree_getitem_str", file=_TREE_PY, cls="Tree", func="__getitem__", params=["self", "key"],
       vars={"self": "DictSWC", "key": "String"}, ret="List Int", doc="`swcgeom/core/tree.py::Tree.__getitem__` for a `str` key")

# --- Path (Path / Branch / Compartment over a tree or a DictSWC)
_vspec(["self.Path__init__"], lean="path_init", file=_PATH, cls="Path", func="__init__", params=["self", "attach", "idx"],
       vars={"self": "Path", "attach": "DictSWC", "idx": "List Int"}, ret="Unit", out=["self"],
       skip_stmts=_SKIP_INIT + ["self.source = self.attach.source"])
_vspec("get_ndata#Path", lean="path_get_ndata", file=_PATH, cls="Path", func="get_ndata", params=["self", "key"],
       vars={"self": "Path", "key": "String"}, ret="List Int")
_vspec("keys#Path", lean="path_keys", file=_PATH, cls="Path", func="keys", params=["self"], vars={"self": "Path"}, ret="List String")
_vspec("origin_id#Path", lean="path_origin_id", file=_PATH, cls="Path", func="origin_id", params=["self"], vars={"self": "Path"}, ret="List Int")
_vspec("id#Path", lean="path_id", file=_PATH, cls="Path", func="id", params=["self"], vars={"self": "Path"}, ret="List Int")
_vspec("pid#Path", lean="path_pid", file=_PATH, cls="Path", func="pid", params=["self"], vars={"self": "Path"}, ret="List Int")
_vspec("__len__#Path", lean="path_len", file=_PATH, cls="Path", func="__len__", params=["self"], vars={"self": "Path"}, ret="Int")
_vspec(lean="pnode_init", file=_NODE, cls="Node", func="__init__", params=["self", "attach", "idx"],
       vars={"self": "PNode", "attach": "Path", "idx": "Int"}, ret="Unit", out=["self"], skip_stmts=_SKIP_INIT)
_vspec(["__getitem__#PNode#String", "__getitem__#PNode"], lean="pnode_getitem", file=_NODE, cls="Node", func="__getitem__", params=["self", "key"],
       vars={"self": "PNode", "key": "String"}, ret="Int")
_vspec("__setitem__#PNode", lean="pnode_setitem", file=_NODE, cls="Node", func="__setitem__", params=["self", "k", "v"],
       vars={"self": "PNode", "k": "String", "v": "Int"}, ret="Unit", out=["self"],
       doc="`swcgeom/core/node.py::Node.__setitem__` on a node of a Path: `attach.get_ndata(k)` is the NEW array fancy indexing makes, the store "
           "goes to that temporary (the owner is untouched; IndexError still propagates)")
_vspec("node#Path", lean="path_node", file=_PATH, cls="Path", func="node", params=["self", "idx"], vars={"self": "Path", "idx": "Int"},
       ret="PNode", ctors={"self.Node": "pnode_init"})
_vspec("__getitem__#Path#Int", lean="path_getitem_int", file=_PATH, cls="Path", func="__getitem__", params=["self", "key"],
       vars={"self": "Path", "key": "Int", "length": "Int"}, ret="PNode", doc="`swcgeom/core/path.py::Path.__getitem__` for an `int` key")
_vspec("__getitem__#Path#Slice", lean="path_getitem_slice", file=_PATH, cls="Path", func="__getitem__", params=["self", "key"],
       vars={"self": "Path", "key": "Slice", "i": "Int"}, ret="List PNode", doc="`swcgeom/core/path.py::Path.__getitem__` for a `slice` key")
_vspec("__getitem__#Path#String", lean="path_getitem_str", file=_PATH, cls="Path", func="__getitem__", params=["self", "key"],
       vars={"self": "Path", "key": "String"}, ret="List Int", doc="`swcgeom/core/path.py::Path.__getitem__` for a `str` key")
_vspec("detach#Path", lean="path_detach", file=_PATH, cls="Path", func="detach", params=["self"],
       vars={"self": "Path", "attact": "DictSWC", "k": "String"}, ret="Path", ctors={"DictSWC": "dictswc_init", "Path": "path_init"},
       stmt_subst={"attact = DictSWC(**{k: self.get_ndata(k) for k in self.keys()}, source=self.source, names=self.names)":
                   "attact = DictSWC({k: self.get_ndata(k) for k in self.keys()}, self.names)"})

# --- compartments: of a tree (a Path of two rows of the tree), of a branch (a PPath of two positions of the branch)
_COMP = "swcgeom/core/compartment.py"
_vspec(lean="tcomp_init", file=_COMP, cls="Compartment", func="__init__", params=["self", "attach", "pid", "idx"],
       vars={"self": "Path", "attach": "DictSWC", "pid": "Int", "idx": "Int"}, ret="Unit", out=["self"],
       call_alias={"super().__init__": ("self.Path__init__", [0, 1])})
_vspec("get_compartments#DictSWC", lean="tree_get_compartments", file=_TREE_PY, cls="Tree", func="get_compartments", params=["self"],
       vars={"self": "DictSWC", "n": "TNode"}, ret="List Path", ctors={"self.Compartment": "tcomp_init", "Compartments": "<list>"})
_vspec(["self.PPath__init__"], lean="ppath_init", file=_PATH, cls="Path", func="__init__", params=["self", "attach", "idx"],
       vars={"self": "PPath", "attach": "Path", "idx": "List Int"}, ret="Unit", out=["self"],
       skip_stmts=_SKIP_INIT + ["self.source = self.attach.source"])
_vspec("get_ndata#PPath", lean="ppath_get_ndata", file=_PATH, cls="Path", func="get_ndata", params=["self", "key"],
       vars={"self": "PPath", "key": "String"}, ret="List Int")
_vspec(lean="bcomp_init", file=_COMP, cls="Compartment", func="__init__", params=["self", "attach", "pid", "idx"],
       vars={"self": "PPath", "attach": "Path", "pid": "Int", "idx": "Int"}, ret="Unit", out=["self"],
       call_alias={"super().__init__": ("self.PPath__init__", [0, 1])})
_vspec("get_compartments#Path", lean="branch_get_compartments", file="swcgeom/core/branch.py", cls="Branch", func="get_compartments", params=["self"],
       vars={"self": "Path", "i": "Int"}, ret="List PPath", ctors={"self.Compartment": "bcomp_init", "Compartments": "<list>"})
