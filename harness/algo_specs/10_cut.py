# C06 (T1 `cut`): to_subtree, cut_tree with its closures _enter / _leave calling the USER's callbacks  ->  Gen/AlgoCut.lean
MODULE_IMPORTS["AlgoCut"] = ["AlgoSubtree", "AlgoNode"]
CALLEES["propagate_removal"] = "propagate_removal"          # the translated propagate_removal (Gen/AlgoSubtree.lean) is called by to_subtree

_CUT_TU = "swcgeom/core/tree_utils.py"
_CUT_RES = "((List Int) × (List Int)) × (List Int)"          # ((new ids, new parents), new→old mapping): the topology of the resulting Tree

spec(lean="to_subtree", module="AlgoCut", file=_CUT_TU, func="to_subtree", tree_callee="to_subtree",
     params=["tids", "tpids", "removals"],
     vars={"tids": "List Int", "tpids": "List Int", "removals": "List Int", "new_ids": "List Int", "i": "Int",
           "sub": "(List Int) × (List Int)", "res": _CUT_RES},
     ret=_CUT_RES, fuel=True, tree_cols={"swc_like": {"id": "tids", "pid": "tpids"}},
     call_alias={"to_subtree_impl": ("to_sub_topology", [1])},
     stmt_subst={"n_nodes, ndata, source, names = to_subtree_impl(swc_like, sub, out_mapping=out_mapping)": "res = to_subtree_impl(swc_like, sub)",
                 "return Tree(n_nodes, **ndata, source=source, names=names)": "return res"},
     doc="`swcgeom/core/tree_utils.py::to_subtree` at the topology level (the tree is its columns `tids`, `tpids`; `to_subtree_impl` is "
         "`to_sub_topology` followed by gathering every attribute column through the returned mapping; the result stands for the `Tree` built from it)")

_CUT_ENTER_CB = {"enter": ("(enter : σ → Int → Option T → σ × (T × Bool))", 2, "T × Bool")}
_CUT_LEAVE_CB = {"leave": ("(leave : σ → Int → List K → σ × (K × Bool))", 2, "K × Bool")}
_CUT_COLS = {"tree": {"id": "ids", "pid": "pids"}}

spec(lean="cut_enter", module="AlgoCut", file=_CUT_TU, func="cut_tree", nested="_enter",
     params=["n", "parent"], tparams=["σ", "T"], callbacks=_CUT_ENTER_CB, captures=["removals", "ids"], tree_cols={"tree": {"id": "ids"}},
     vars={"n": "Node@tree", "parent": "Option (T × Bool)", "removals": "List Int", "ids": "List Int", "res": "T", "removal": "Bool"},
     ret="T × Bool",
     doc="`swcgeom/core/tree_utils.py::cut_tree`, nested `_enter` (calls the user's `enter`; `n` is a node handle of the tree whose id column is `ids`)")
spec(lean="cut_tree_enter", module="AlgoCut", file=_CUT_TU, func="cut_tree",
     params=["ids", "pids"], tparams=["σ", "T"], callbacks=_CUT_ENTER_CB, absent=["leave"], closures={"_enter": "cut_enter"}, tree_cols=_CUT_COLS,
     vars={"ids": "List Int", "pids": "List Int", "removals": "List Int"}, ret=_CUT_RES, fuel=True,
     doc="`swcgeom/core/tree_utils.py::cut_tree`, overload `cut_tree(tree, *, enter)` (the tree is its columns `ids`, `pids`)")

spec(lean="cut_leave", module="AlgoCut", file=_CUT_TU, func="cut_tree", nested="_leave",
     params=["n", "children"], tparams=["σ", "K"], callbacks=_CUT_LEAVE_CB, captures=["removals", "ids"], tree_cols={"tree": {"id": "ids"}},
     vars={"n": "Node@tree", "children": "List K", "removals": "List Int", "ids": "List Int", "res": "K", "removal": "Bool"},
     ret="K",
     doc="`swcgeom/core/tree_utils.py::cut_tree`, nested `_leave` (calls the user's `leave`)")
spec(lean="cut_tree_leave", module="AlgoCut", file=_CUT_TU, func="cut_tree",
     params=["ids", "pids"], tparams=["σ", "K"], callbacks=_CUT_LEAVE_CB, absent=["enter"], closures={"_leave": "cut_leave"}, tree_cols=_CUT_COLS,
     vars={"ids": "List Int", "pids": "List Int", "removals": "List Int"}, ret=_CUT_RES, fuel=True,
     doc="`swcgeom/core/tree_utils.py::cut_tree`, overload `cut_tree(tree, *, leave)` (the tree is its columns `ids`, `pids`)")

# --- transforms/tree.py: CutByType.__call__ with its `leave` closure over the `removals` SET, CutByFurcationOrder._enter (the user callback it hands to cut_tree)
_CUT_TT = "swcgeom/transforms/tree.py"
spec(lean="type_leave", module="AlgoCut", file=_CUT_TT, cls="CutByType", func="__call__", nested="leave",
     params=["n", "keep_children"], captures=["removals", "ids"], tree_cols={"x": {"id": "ids"}},
     vars={"n": "Node@x", "keep_children": "List Bool", "removals": "Set Int", "ids": "List Int"}, ret="Bool",
     doc="`swcgeom/transforms/tree.py::CutByType.__call__`, nested `leave` (`removals` is a set of node ids)")
spec(lean="cut_by_type", module="AlgoCut", file=_CUT_TT, cls="CutByType", func="__call__",
     params=["ids", "pids", "types", "ty"], tree_cols={"x": {"id": "ids", "pid": "pids", "type": "types"}},
     vars={"ids": "List Int", "pids": "List Int", "types": "List Int", "ty": "Int", "removals": "Set Int", "y": _CUT_RES},
     ret=_CUT_RES, fuel=True, closures={"leave": "type_leave"}, subst={"self.type": ("v.ty", "Int")},
     doc="`swcgeom/transforms/tree.py::CutByType.__call__` (the tree is its columns `ids`, `pids`, `types`; `self.type` is the parameter `ty`)")
spec(lean="order_enter", module="AlgoCut", file=_CUT_TT, cls="CutByFurcationOrder", func="_enter",
     params=["ids", "pids", "max_order", "n", "parent_level"], tree_cols={"tree": {"id": "ids", "pid": "pids"}},
     vars={"ids": "List Int", "pids": "List Int", "max_order": "Int", "n": "Node@tree", "parent_level": "Option Int", "level": "Int"},
     ret="Int × Bool", subst={"self.max_furcation_order": ("v.max_order", "Int")},
     doc="`swcgeom/transforms/tree.py::CutByFurcationOrder._enter`, the callback `CutByFurcationOrder.__call__` hands to `cut_tree` (`n` is a node "
         "handle of the tree with the columns `ids`, `pids`; `self.max_furcation_order` is the parameter `max_order`)")
