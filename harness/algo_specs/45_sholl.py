# C10 (T16 `sholl`): swcgeom/analysis/sholl.py (Sholl.__init__ / intersect / get / get_rs / _get_rs) with the segment construction it
# rests on (Tree.get_segments / get_compartments, Compartments.get_ndata, Compartment.get_ndata)            ->  Gen/AlgoSholl.lean
# and the padding / stacking front end of swcgeom/analysis/feature_extractor.py (_get_feat_and_kwargs is left out; Population /
# Populations `_get_impl`)                                                                                   ->  Gen/AlgoFeatFront.lean
# Float values are values of the numeric type parameter `K` (run at Rat by the driver); `/`, float(int), ceil come from `Py.Fld K`
# (Model/PyResample.lean), the numpy idioms below from Model/PySholl.lean.
#
# GENERAL constructs added through the hooks (none is keyed on a function name):
#   a <= r, a < r, a > r, a >= r   (1-d float array, float scalar)     Py.Sh.leMask / ltMask / gtMask / geMask
#   m[:, j]  (2-d)                                                     Py.col m j
#   np.logical_and(a, b) / np.logical_or(a, b)  (1-d bool arrays)      Py.Sh.logicalAnd / logicalOr   (unequal lengths raise)
#   np.count_nonzero(rows, axis=1)  (python list of 1-d bool arrays)   Py.Sh.countNonzeroRows         ([] -> AxisError, ragged -> ValueError)
#   m.max()  (2-d float array)                                         Py.Sh.max2                      (no entries -> ValueError)
#   np.arange(a, b, c) (floats; an int argument is that float, an Optional[float] argument that is None raises)   Py.Sh.arange
#   x / y  (float / float, float / int)                                Py.fdiv x y
#   int(np.ceil(x))                                                    Py.Fld.ceil x
#   np.float64(x) / np.float32(x) / float(x) of a float                x        (rounding between float widths is outside every theorem: DESIGN §3)
#   T[k:]  (T a tree that is column variables, constant k >= 0)        Py.Sh.nodesFrom (len ids) k : the node handles k .. n-1
#   isinstance(x, int) on a variable of declared type                  decided statically: only the live branch of the `if` is translated
#                                                                      (one definition per member of a union-typed parameter)
#   try: B  except Exception [as e]: raise K(msg) [from e]             Py.Sh.tryAnyRaise: ANY exception of B (tracked or untracked) becomes K(msg)
#   max(len(v) for v in xs) / max(<generator of ints>)                 Py.Sh.maxInts of the lowered generator  (empty -> ValueError)
#   chain.from_iterable(((E for b in a) for a in xs))                  the lowered nested loops, in order
#   padding1d(n, v, dtype=np.float32)                                  Py.Sh.padding1d n v
#   np.stack(rows)  (python list of 1-d arrays)                        Py.Sh.stackRows rows
#   np.zeros((a, b, c), dtype=np.float32)                              Py.Sh.zeros3 a b c
#   out[i, j, :k] = vv  (3-d array)                                    Py.Sh.setRowPrefix3 out i j k vv
#
# TRUSTED GLUE (source text replaced by its meaning on the modelled data; a changed text makes the key miss = translator failure):
#   the Sholl object is its fields: `self.rs` / `self.rmax` / `self.step` are the variables `rs` / `rmax` / `self_step` (subst + stores)
#   Sholl.__init__:
#     skip_stmts  tree = Tree.from_swc(tree) if isinstance(tree, str) else tree        (the tree is given as an object)
#                 self.tree = TranslateOrigin.transform(tree)                          (root-centring; GEOMETRY GLUE: `rad[i]` is the Euclidean
#                                                                                       norm of node i of the centred tree = its distance to the root)
#     stmt_subst  self.rs = np.linalg.norm(self.tree.get_segments().xyz(), axis=2)  ->  self.rs = self.tree.get_segments().get_ndata('rad')
#                 (GEOMETRY GLUE: `Compartments.xyz()` stacks `get_ndata(x|y|z)` on the last axis, so the norm over that axis of the gathered
#                  coordinates is the gathered per-node norm `rad`; WHICH nodes are gathered, in which order, is translated)
#   call resolution (SH_CALLS: call text -> translated function and the python texts of its arguments over the caller's variables):
#     self.tree.get_segments() -> tree_get_segments(ids, pids); self.get_compartments() -> sholl_segments(ids, pids);
#     <segments>.get_ndata('rad') -> compartments_get_ndata(<segments>, rad); s.get_ndata(key) -> compartment_get_ndata(col, s);
#     self._get_rs(steps=steps) / self.get_rs(self.rmax, steps) -> the instantiation for the declared type of `steps`
#   constructors: `self.Compartment(self, a, b)` -> `[a, b]` (Compartment.__init__ stores `np.array([pid, idx])` as `idx`: translated and proved
#     in C09, `RefineViews.tcomp_init_eq`); `Compartments(gen)` -> `list(gen)` (a `list` subclass)
#   Compartment.get_ndata: `self.attach.get_ndata(key)` -> the column `col`; `self.idx` -> `idx`.  Compartments.get_ndata: `self` -> `segs`.
#   feature_extractor: `[f.get(feature, **kwargs) for f in self._features]` / `[[f.get(feature, **kwargs) for f in fs] for fs in self._features]`
#     -> the parameter `vals` (the per-tree value vectors are DATA)
MODULE_MODEL_IMPORTS["AlgoSholl"] = ["PyResample", "PySholl"]
MODULE_MODEL_IMPORTS["AlgoFeatFront"] = ["PyResample", "PySholl"]

SH_CALLS = {}      # lean name of the caller -> {python call text: (lean name of the callee, [python texts of its arguments])}
SH_CTORS = {"self.Compartment": lambda args: ast.List(list(args[1:]), ast.Load()),        # Compartment(attach, pid, idx).idx = [pid, idx]
            "Compartments": lambda args: args[0]}                                          # a list subclass built from an iterable


def _sh_arr(t, tr, depth=1):
    for _ in range(depth):
        if not (isinstance(t, tuple) and t[0] == "List"):
            return False
        t = t[1]
    return t in tr.num


def _sh_float(tr, e, K):
    """`e` as a float scalar of type K: an int is that float, an Optional[float] that is None raises (TypeError)"""
    s, c, t = tr.tr(e, K)
    if t == K:
        return s, c
    if t == "Int":
        return s, f"(Py.Fld.ofInt {c} : {K})"
    if t == ("Option", K):
        n = tr.bindname()
        return s + [f"Py.bind ({c}) fun {n} =>"], n
    return None


def _sh_static_isinstance(tr, e):
    if not (isinstance(e, ast.Call) and ast.unparse(e.func) == "isinstance" and len(e.args) == 2 and isinstance(e.args[0], ast.Name)):
        return None
    t = tr.vars.get(e.args[0].id)
    T = ast.unparse(e.args[1])
    if t is None or T not in ("int",):
        return None
    return t == "Int"


def _sh_lower_gen(tr, g):
    """a (possibly nested) generator of ints, `chain.from_iterable` of a generator of generators included -> (steps, code of the list, type)"""
    if isinstance(g, ast.Call) and ast.unparse(g.func) in ("chain.from_iterable", "itertools.chain.from_iterable") and len(g.args) == 1 \
            and isinstance(g.args[0], (ast.GeneratorExp, ast.ListComp)) and isinstance(g.args[0].elt, (ast.GeneratorExp, ast.ListComp)):
        # [x for a in xs for x in inner(a)]: the inner lists are concatenated in order
        outer = g.args[0]
        s0, c, t = tr.tr(ast.ListComp(outer.elt, outer.generators))
        if isinstance(t, tuple) and t[0] == "List" and isinstance(t[1], tuple) and t[1][0] == "List":
            return s0, f"({c}).flatten", t[1]
        return None
    if isinstance(g, (ast.GeneratorExp, ast.ListComp)):
        return tr.tr(g)
    return None


def _sh_expr(tr, e, want):
    K = next(iter(tr.num), None)
    # --- array ? scalar on floats
    if isinstance(e, ast.Compare) and len(e.ops) == 1 and type(e.ops[0]) in (ast.LtE, ast.Lt, ast.Gt, ast.GtE):
        s1, a, ta = tr.tr(e.left)
        if _sh_arr(ta, tr):
            s2, b, tb = tr.tr(e.comparators[0], ta[1])
            if tb == ta[1]:
                fn = {ast.LtE: "leMask", ast.Lt: "ltMask", ast.Gt: "gtMask", ast.GtE: "geMask"}[type(e.ops[0])]
                return s1 + s2, f"(Py.Sh.{fn} {a} {b})", ("List", "Bool")
        return None
    # --- m[:, j]
    if (isinstance(e, ast.Subscript) and isinstance(e.slice, ast.Tuple) and len(e.slice.elts) == 2 and is_full_slice(e.slice.elts[0])
            and not isinstance(e.slice.elts[1], ast.Slice) and not (isinstance(e.slice.elts[1], ast.Constant) and e.slice.elts[1].value is None)):
        s0, m, tm = tr.tr(e.value)
        if isinstance(tm, tuple) and tm[0] == "List" and isinstance(tm[1], tuple) and tm[1][0] == "List":
            s1, j, tj = tr.tr(e.slice.elts[1])
            if tj == "Int":
                n = tr.bindname()
                return s0 + s1 + [f"Py.bind (Py.col {m} {j}) fun {n} =>"], n, tm[1]
        return None
    # --- T[k:] of a tree that is column variables
    if (isinstance(e, ast.Subscript) and isinstance(e.slice, ast.Slice) and ast.unparse(e.value) in tr.spec.tree_cols
            and e.slice.upper is None and e.slice.step is None and isinstance(e.slice.lower, ast.Constant)
            and isinstance(e.slice.lower.value, int) and e.slice.lower.value >= 0):
        T = ast.unparse(e.value)
        ids = tr.spec.tree_cols[T]["id"]
        return [], f"(Py.Sh.nodesFrom (Py.len v.{lname(ids)}) {e.slice.lower.value})", ("List", f"Node@{T}")
    # --- true division on floats
    if isinstance(e, ast.BinOp) and isinstance(e.op, ast.Div) and K is not None:
        s1, a, ta = tr.tr(e.left)
        if ta == K:
            r = _sh_float(tr, e.right, K)
            if r is not None:
                n = tr.bindname()
                return s1 + r[0] + [f"Py.bind (Py.fdiv {a} {r[1]}) fun {n} =>"], n, K
        return None
    if not isinstance(e, ast.Call):
        return None
    f = ast.unparse(e.func)
    args = e.args
    kw = {k.arg: k.value for k in e.keywords}
    txt = ast.unparse(e)
    # --- calls resolved by their text (method resolution on objects that are column variables)
    calls = SH_CALLS.get(tr.spec.lean, {})
    if txt in calls:
        lean, argtxt = calls[txt]
        callee = by_lean_global[lean]
        if callee.raises or callee.out or callee.callbacks or callee.fuel:
            raise Untranslatable(f"{tr.spec.lean}: call of {lean}")
        if any(b not in tr.spec.fparams for b in callee.fparams):
            raise Untranslatable(f"{tr.spec.lean}: {lean} needs {callee.fparams}")
        if len(argtxt) != len(callee.params):
            raise Untranslatable(f"{tr.spec.lean}: {lean} takes {callee.params}")
        steps, codes = [], []
        for pn, at in zip(callee.params, argtxt):
            pt = parse_type(callee.vars[pn])
            s, c, t = tr.tr(ast.parse(at, mode="eval").body, pt)
            if show_type(t) != show_type(pt):
                raise Untranslatable(f"{tr.spec.lean}: argument `{at}` of {lean} is {t}, expected {pt}")
            steps += s; codes.append(c)
        fa = "".join(" " + b.split()[0].strip("(") for b in callee.fparams)
        n = tr.bindname()
        return steps + [f"Py.bind ({lean}{fa} {' '.join(codes)}) fun {n} =>"], n, parse_type(callee.ret)
    if f in SH_CTORS and not kw:
        return tr.tr(ast.fix_missing_locations(ast.copy_location(SH_CTORS[f](args), e)), want)
    if f in ("np.logical_and", "np.logical_or") and len(args) == 2 and not kw:
        s1, a, ta = tr.tr(args[0]); s2, b, tb = tr.tr(args[1])
        if ta == ("List", "Bool") and tb == ta:
            n = tr.bindname()
            fn = "logicalAnd" if f.endswith("and") else "logicalOr"
            return s1 + s2 + [f"Py.bind (Py.Sh.{fn} {a} {b}) fun {n} =>"], n, ta
        return None
    if f == "np.count_nonzero" and len(args) == 1 and set(kw) == {"axis"} and isinstance(kw["axis"], ast.Constant) and kw["axis"].value == 1:
        s0, c, t = tr.tr(args[0])
        if t == ("List", ("List", "Bool")) and isinstance(args[0], ast.Name):        # a python LIST of 1-d arrays
            n = tr.bindname()
            return s0 + [f"Py.bind (Py.Sh.countNonzeroRows {c}) fun {n} =>"], n, ("List", "Int")
        return None
    if isinstance(e.func, ast.Attribute) and e.func.attr == "max" and not args and not kw:
        s0, c, t = tr.tr(e.func.value)
        if _sh_arr(t, tr, 2):
            n = tr.bindname()
            return s0 + [f"Py.bind (Py.Sh.max2 {c}) fun {n} =>"], n, t[1][1]
        return None
    if f == "np.arange" and len(args) == 3 and not kw and K is not None:
        parts = [_sh_float(tr, x, K) for x in args]
        if all(p is not None for p in parts) and any(tr.tr(x)[2] in (K, ("Option", K)) for x in args):
            n = tr.bindname()
            return sum((p[0] for p in parts), []) + [f"Py.bind (Py.Sh.arange {' '.join(p[1] for p in parts)}) fun {n} =>"], n, ("List", K)
        return None
    if f == "int" and len(args) == 1 and not kw and isinstance(args[0], ast.Call) and ast.unparse(args[0].func) == "np.ceil" and len(args[0].args) == 1:
        s0, c, t = tr.tr(args[0].args[0])
        if t in tr.num:
            return s0, f"(Py.Fld.ceil {c})", "Int"
        return None
    if f in ("np.float64", "np.float32", "float") and len(args) == 1 and not kw:
        s0, c, t = tr.tr(args[0])
        if t in tr.num:
            return s0, c, t
        return None
    if f == "max" and len(args) == 1 and not kw:
        r = _sh_lower_gen(tr, args[0])
        if r is not None and r[2] == ("List", "Int"):
            n = tr.bindname()
            return r[0] + [f"Py.bind (Py.Sh.maxInts {r[1]}) fun {n} =>"], n, "Int"
        return None
    if f == "padding1d" and len(args) == 2 and set(kw) == {"dtype"} and ast.unparse(kw["dtype"]) == "np.float32":
        s0, n_, tn = tr.tr(args[0]); s1, v_, tv = tr.tr(args[1])
        if tn == "Int" and _sh_arr(tv, tr):
            return s0 + s1, f"(Py.Sh.padding1d {n_} {v_})", tv
        return None
    if f == "np.stack" and len(args) == 1 and not kw:
        s0, c, t = tr.tr(args[0])
        if isinstance(t, tuple) and t[0] == "List" and isinstance(t[1], tuple) and t[1][0] == "List":
            n = tr.bindname()
            return s0 + [f"Py.bind (Py.Sh.stackRows {c}) fun {n} =>"], n, t
        return None
    if f == "np.zeros" and len(args) == 1 and set(kw) == {"dtype"} and ast.unparse(kw["dtype"]) == "np.float32" \
            and isinstance(args[0], ast.Tuple) and len(args[0].elts) == 3 and K is not None:
        parts = [tr.tr(x) for x in args[0].elts]
        if all(p[2] == "Int" for p in parts):
            n = tr.bindname()
            return (sum((p[0] for p in parts), []) + [f"Py.bind (Py.Sh.zeros3 (K := {K}) {' '.join(p[1] for p in parts)}) fun {n} =>"], n,
                    ("List", ("List", ("List", K))))
        return None
    return None


def _sh_following(tr, s):
    """source positions of the statements that follow `s` in its block (found in a fresh parse of the function: nodes have no parent links)"""
    fdef = find_def(ast.parse((REPO / tr.spec.file).read_text()), tr.spec.cls, tr.spec.func)
    for nd in ast.walk(fdef):
        for fld in ("body", "orelse", "finalbody"):
            blk = getattr(nd, fld, None)
            if isinstance(blk, list):
                for k, st in enumerate(blk):
                    if isinstance(st, ast.stmt) and (st.lineno, st.col_offset) == (s.lineno, s.col_offset) and type(st) is type(s):
                        return {(x.lineno, x.col_offset) for x in blk[k + 1:]}
    return set()


def _sh_stmt(tr, s):
    # --- a statement after an `if` that is statically taken and ends in `return` / `raise`: unreachable in this instantiation
    if (getattr(s, "lineno", None), getattr(s, "col_offset", None)) in getattr(tr, "_sh_dead", set()):
        return "Py.skip"
    # --- `if isinstance(x, int):` decided by the declared type of x: only the live branch is translated
    if isinstance(s, ast.If):
        truth = _sh_static_isinstance(tr, s.test)
        if truth is not None:
            live = s.body if truth else s.orelse
            if live and isinstance(live[-1], (ast.Return, ast.Raise)):
                tr._sh_dead = getattr(tr, "_sh_dead", set()) | _sh_following(tr, s)
            return tr.block(live) if live else "Py.skip"
        return None
    # --- try: B  except Exception [as e]: raise K(msg) [from e]
    if (isinstance(s, ast.Try) and tr.spec.raises and not s.orelse and not s.finalbody and len(s.handlers) == 1
            and isinstance(s.handlers[0].type, ast.Name) and s.handlers[0].type.id == "Exception"
            and len(s.handlers[0].body) == 1 and isinstance(s.handlers[0].body[0], ast.Raise) and s.handlers[0].body[0].exc is not None):
        body = tr.block(s.body)
        steps, exc = tr.exc_value(s.handlers[0].body[0].exc, None)
        if steps:
            return None
        return f"(Py.Sh.tryAnyRaise {body} {exc})"
    # --- out[i, j, :k] = vv on a 3-d array
    if (isinstance(s, ast.Assign) and len(s.targets) == 1 and isinstance(s.targets[0], ast.Subscript) and isinstance(s.targets[0].value, ast.Name)
            and isinstance(s.targets[0].slice, ast.Tuple) and len(s.targets[0].slice.elts) == 3):
        tgt = s.targets[0]
        i_, j_, sl = tgt.slice.elts
        s0, m, tm = tr.tr(tgt.value)
        if s0 or not _sh_arr(tm, tr, 3) or not (isinstance(sl, ast.Slice) and sl.lower is None and sl.step is None and sl.upper is not None):
            return None
        s3, vv, tv = tr.tr(s.value)                                   # right-hand side first
        if tv != tm[1][1]:
            return None
        s1, i, ti = tr.tr(i_); s2, j, tj = tr.tr(j_); s4, k, tk = tr.tr(sl.upper)
        if (ti, tj, tk) != ("Int", "Int", "Int"):
            return None
        n = tr.bindname()
        return tr.chain(s3 + s1 + s2 + s4 + [f"Py.bind (Py.Sh.setRowPrefix3 {tr.reread(tgt.value)} {i} {j} {k} {vv}) fun {n} =>"],
                        ".next " + tr.lvalue(tgt.value)(n))
    return None


EXPR_HOOKS.append(_sh_expr)
STMT_HOOKS.append(_sh_stmt)

_SH = "swcgeom/analysis/sholl.py"
_SH_F = ["(F : Py.Fld K)"]
_SH_SELF = {"self.rs": ("v.rs", "List (List K)"), "self.rmax": ("v.rmax", "K"), "self.step": ("v.self_step", "Option K")}
_SH_TREE = {"self": {"id": "ids", "pid": "pids"}}

# ---- the segments of a tree: which node is which end
spec(lean="sholl_segments", module="AlgoSholl", file="swcgeom/core/tree.py", cls="Tree", func="get_compartments",
     params=["ids", "pids"], vars={"ids": "List Int", "pids": "List Int", "n": "Node@self"}, ret="List (List Int)", tree_cols=_SH_TREE,
     doc="`swcgeom/core/tree.py::Tree.get_compartments` (the tree is its columns `ids`, `pids`; a `Compartment` is its index array `[pid, id]`, "
         "`Compartments` the list of its members)")
spec(lean="tree_get_segments", module="AlgoSholl", file="swcgeom/core/tree.py", cls="Tree", func="get_segments",
     params=["ids", "pids"], vars={"ids": "List Int", "pids": "List Int"}, ret="List (List Int)", tree_cols=_SH_TREE,
     doc="`swcgeom/core/tree.py::Tree.get_segments` (alias of `get_compartments`)")
SH_CALLS["tree_get_segments"] = {"self.get_compartments()": ("sholl_segments", ["ids", "pids"])}
spec(lean="compartment_get_ndata", module="AlgoSholl", file="swcgeom/core/compartment.py", cls="Compartment", func="get_ndata",
     params=["col", "idx"], num_tparams=["K"], vars={"col": "List K", "idx": "List Int"}, ret="List K",
     subst={"self.attach.get_ndata(key)": ("v.col", "List K"), "self.idx": ("v.idx", "List Int")},
     doc="`swcgeom/core/compartment.py::Compartment.get_ndata` (`self.attach.get_ndata(key)` is the column `col`, `self.idx` the index array `idx`)")
spec(lean="compartments_get_ndata", module="AlgoSholl", file="swcgeom/core/compartment.py", cls="Compartments", func="get_ndata",
     params=["segs", "col"], num_tparams=["K"], vars={"segs": "List (List Int)", "col": "List K", "s": "List Int"}, ret="List (List K)",
     subst={"self": ("v.segs", "List (List Int)")},
     doc="`swcgeom/core/compartment.py::Compartments.get_ndata` (`self` is the list `segs` of index arrays, the column asked for is `col`)")
SH_CALLS["compartments_get_ndata"] = {"s.get_ndata(key)": ("compartment_get_ndata", ["col", "s"])}

# ---- Sholl
spec(lean="sholl_init", module="AlgoSholl", file=_SH, cls="Sholl", func="__init__",
     params=["ids", "pids", "rad", "step"], num_tparams=["K"], raises=True,
     vars={"ids": "List Int", "pids": "List Int", "rad": "List K", "step": "Option K", "rs": "List (List K)", "rmax": "K",
           "self_step": "Option K", "warnings_": "List Exc"},
     ret="Unit", out=["rs", "rmax", "self_step", "warnings_"],
     subst=_SH_SELF, stores={"self.rs": "rs", "self.rmax": "rmax", "self.step": "self_step"},
     skip_stmts=["tree = Tree.from_swc(tree) if isinstance(tree, str) else tree", "self.tree = TranslateOrigin.transform(tree)"],
     stmt_subst={"self.rs = np.linalg.norm(self.tree.get_segments().xyz(), axis=2)": "self.rs = self.tree.get_segments().get_ndata('rad')"},
     doc="`swcgeom/analysis/sholl.py::Sholl.__init__` (the tree is its columns `ids`, `pids`; `rad[i]` is the Euclidean norm of node i of the "
         "root-centred tree; `self.rs` / `self.rmax` / `self.step` are the variables `rs` / `rmax` / `self_step`)")
SH_CALLS["sholl_init"] = {"self.tree.get_segments()": ("tree_get_segments", ["ids", "pids"]),
                          "self.tree.get_segments().get_ndata('rad')": ("compartments_get_ndata", ["self.tree.get_segments()", "rad"])}
spec(lean="sholl_intersect", module="AlgoSholl", file=_SH, cls="Sholl", func="intersect",
     params=["rs", "r"], num_tparams=["K"], vars={"rs": "List (List K)", "r": "K"}, ret="Int", subst=_SH_SELF,
     doc="`swcgeom/analysis/sholl.py::Sholl.intersect` (`self.rs` is the parameter `rs`)")
for _k, _t in (("int", "Int"), ("arr", "List K")):
    spec(lean=f"sholl_get_rs_{_k}", module="AlgoSholl", file=_SH, cls="Sholl", func="get_rs",
         params=["rmax", "steps"], num_tparams=["K"], fparams=_SH_F, vars={"rmax": "K", "steps": _t, "s": "K"}, ret="List K",
         doc=f"`swcgeom/analysis/sholl.py::Sholl.get_rs` for `steps : {_t}`")
    spec(lean=f"sholl_get_rs_self_{_k}", module="AlgoSholl", file=_SH, cls="Sholl", func="_get_rs",
         params=["rmax", "self_step", "steps"], num_tparams=["K"], fparams=_SH_F,
         vars={"rmax": "K", "self_step": "Option K", "steps": _t}, ret="List K", subst=_SH_SELF,
         doc=f"`swcgeom/analysis/sholl.py::Sholl._get_rs` for `steps : {_t}` (`self.rmax` / `self.step` are the parameters `rmax` / `self_step`)")
    SH_CALLS[f"sholl_get_rs_self_{_k}"] = {"self.get_rs(self.rmax, steps)": (f"sholl_get_rs_{_k}", ["self.rmax", "steps"])}
    spec(lean=f"sholl_get_{_k}", module="AlgoSholl", file=_SH, cls="Sholl", func="get",
         params=["rs", "rmax", "self_step", "steps"], num_tparams=["K"], fparams=_SH_F,
         vars={"rs": "List (List K)", "rmax": "K", "self_step": "Option K", "steps": _t, "intersections": "List (List Bool)", "r": "K"},
         ret="List Int", subst=_SH_SELF,
         doc=f"`swcgeom/analysis/sholl.py::Sholl.get` for `steps : {_t}` (`self.rs` / `self.rmax` / `self.step` are the parameters)")
    SH_CALLS[f"sholl_get_{_k}"] = {"self._get_rs(steps=steps)": (f"sholl_get_rs_self_{_k}", ["self.rmax", "self.step", "steps"])}

# ---- the front end: one zero-padded row per tree (Population), one block per population (Populations); the per-tree vectors are DATA
_FE = "swcgeom/analysis/feature_extractor.py"
spec(lean="population_get_impl", module="AlgoFeatFront", file=_FE, cls="PopulationFeatureExtractor", func="_get_impl",
     params=["vals"], num_tparams=["K"], vars={"vals": "List (List K)", "len_max": "Int", "v": "List (List K)"}, ret="List (List K)",
     skip_stmts=["vals = [f.get(feature, **kwargs) for f in self._features]"],
     doc="`swcgeom/analysis/feature_extractor.py::PopulationFeatureExtractor._get_impl` (the per-tree value vectors "
         "`[f.get(feature, **kwargs) for f in self._features]` are the parameter `vals`)")
spec(lean="populations_get_impl", module="AlgoFeatFront", file=_FE, cls="PopulationsFeatureExtractor", func="_get_impl",
     params=["vals"], num_tparams=["K"],
     vars={"vals": "List (List (List K))", "len_max1": "Int", "len_max2": "Int", "out": "List (List (List K))", "i": "Int", "j": "Int",
           "v": "List (List K)", "vv": "List K"},
     ret="List (List (List K))",
     skip_stmts=["vals = [[f.get(feature, **kwargs) for f in fs] for fs in self._features]"],
     doc="`swcgeom/analysis/feature_extractor.py::PopulationsFeatureExtractor._get_impl` (the per-tree value vectors "
         "`[[f.get(feature, **kwargs) for f in fs] for fs in self._features]` are the parameter `vals`)")
