# C08 (session 4, T2 `nodebranch`): Tree.get_tips, Tree.Node.branch  ->  Gen/AlgoNodeBranch.lean (on the node methods of Gen/AlgoNode.lean)
MODULE_IMPORTS["AlgoNodeBranch"] = ["AlgoNode"]
spec(lean="get_tips", module="AlgoNodeBranch", file=_TREE, cls="Tree", func="get_tips",
     params=["ids", "pids"], vars={"ids": "List Int", "pids": "List Int", "tip_ids": "List Int", "i": "Int"},
     ret="List Node@self", tree_cols={"self": {"id": "ids", "pid": "pids"}},
     doc="`swcgeom/core/tree.py::Tree.get_tips` (the tree is its two topology columns `ids`, `pids`; a node handle is its row index)")
spec(lean="node_branch", module="AlgoNodeBranch", file=_TREE, cls="Tree.Node", func="branch",
     params=["ids", "pids", "self"],
     vars={"ids": "List Int", "pids": "List Int", "self": "Node@self.attach", "ns": "List Node@self.attach", "p": "Option Node@self.attach",
           "n": "Node@self.attach"},
     ret="List Int", fuel=True, tree_cols=_ATT,
     doc="`swcgeom/core/tree.py::Tree.Node.branch` (node handles are row indices; the returned `Tree.Branch` is the list of its node ids)")
MODULE_MODEL_IMPORTS["AlgoNodeBranch"] = ["PyMore"]      # Py.setdiff1dUnique
