share_hooks("AlgoTravFront", "AlgoVolFront")    # calls of the generated Tree.traverse instantiations, static `isinstance`, …
share_hooks("AlgoVolume", "AlgoVolFront")       # float literals / `sum` over a numeric type parameter, `nonlocal`
# C14 (T24 `volfront`): the front of the volume computation  ->  Gen/AlgoVolFront.lean
#   swcgeom/analysis/volume.py::get_volume                        (the `accuracy` name table, the range assertion, the `match method:` dispatch;
#                                                                  one instantiation per type of `accuracy`: `int` / `str`)
#   swcgeom/analysis/volume.py::_get_volume_frustum_cone_mc_only  (the scene built by the `leave` closure over the traversal; the sdflit sampling
#                                                                  of the finished scene is the parameter `mcScene`)
#   swcgeom/utils/volumetric_object.py                            the DISPATCH methods (see the second half of this file)
#
# GENERAL additions (hooks; nothing is keyed on a function name - the tables `FN_CALLS`, `CLASS_TAGS`, … below the line "the specs" are data):
#   (F1) a call `g(tree, k=…)` of a translated function with PURE FUNCTION PARAMETERS / a numeric type parameter from a function that has the
#        same parameters: they are handed through by name; a tree argument is the caller's columns of that tree.
#   (F2) `assert c` in a function whose exceptions are tracked: `AssertionError` when `c` is false.
#   (F3) `D[k]` on a module-level constant `D = {"a": 1, …}` (string keys, integer values; read from the source on every run): the value,
#        `KeyError` (tracked where the function tracks exceptions) when `k` is no key.
#   (F4) a PARAMETER whose name is later re-bound to a value of another type (`x#1` versions): on entry the name denotes the parameter.
#   (F5) an integer literal `0` / `1` where a value of a numeric type parameter is expected (`return 0` from a float function).
#   (F6) `isinstance(x, str)` on a `String` is true, on an `Int` false (data of 04_travfront's static `isinstance`).
MODULE_IMPORTS["AlgoVolFront"] = ["AlgoTravFront", "AlgoVolume"]
MODULE_MODEL_IMPORTS["AlgoVolFront"] = ["PyVolume", "PyVolFront"]

_ISINSTANCE["String"] = {"str": True, "int": False, "float": False, "list": False, "tuple": False, "dict": False}
_ISINSTANCE["Int"].setdefault("str", False)

FN_CALLS = {}        # python callee text -> lean name of the translated function it denotes in this group (F1)


def _h_fn_call(tr, e, want):
    if not (isinstance(e, ast.Call) and isinstance(e.func, ast.Name) and e.func.id in FN_CALLS):
        return None
    callee = by_lean_global.get(FN_CALLS[e.func.id])
    if callee is None:
        return None
    if any(b not in tr.spec.fparams for b in callee.fparams) or any(t not in tr.spec.num_tparams for t in callee.num_tparams) or callee.tparams:
        raise Untranslatable(f"{tr.spec.lean}: `{ast.unparse(e)}`: the parameters {callee.fparams} of {callee.lean} are not parameters of the caller")
    if callee.callbacks or callee.out or callee.raises:
        raise Untranslatable(f"{tr.spec.lean}: `{ast.unparse(e)}`: {callee.lean} has callbacks / out-parameters / tracked exceptions")
    if callee.fuel and not tr.spec.fuel:
        raise Untranslatable(f"{tr.spec.lean} calls {callee.lean} which needs fuel")
    kw = {k.arg: k.value for k in e.keywords}
    if None in kw or any(isinstance(x, ast.Starred) for x in e.args):
        raise Untranslatable(f"{tr.spec.lean}: `{ast.unparse(e)}`")
    # the callee's tree parameter -> its column parameters
    args, cols = list(e.args), {}
    if callee.tree_cols:
        (ctree, ccols), = callee.tree_cols.items()
        if not args or ast.unparse(args[0]) not in tr.spec.tree_cols:
            raise Untranslatable(f"{tr.spec.lean}: `{ast.unparse(e)}`: the first argument is not a tree of this function")
        mine = tr.spec.tree_cols[ast.unparse(args.pop(0))]
        for key, var in ccols.items():
            if key not in mine:
                raise Untranslatable(f"{tr.spec.lean}: `{ast.unparse(e)}` needs column `{key}`")
            cols[var] = f"v.{lname(mine[key])}"
    rest = [p for p in callee.params if p not in cols]
    given = dict(zip(rest, args))
    if len(args) > len(rest) or any(k not in rest or k in given for k in kw):
        raise Untranslatable(f"{tr.spec.lean}: arguments of `{ast.unparse(e)}`")
    given.update(kw)
    dfl = fn_defaults(callee)
    steps, codes = [], []
    for pn in callee.params:
        if pn in cols:
            codes.append(cols[pn])
            continue
        x = given.get(pn, dfl.get(pn))
        if x is None:
            raise Untranslatable(f"{tr.spec.lean}: `{ast.unparse(e)}` gives no value for `{pn}`")
        pt = parse_type(callee.vars[pn])
        s0, c, t = tr.tr(x, pt)
        if t != pt:
            raise Untranslatable(f"{tr.spec.lean}: `{ast.unparse(e)}`: `{pn}` is {t}, expected {pt}")
        steps += s0; codes.append(c)
    fps = " ".join(b.split()[0].strip("(") for b in callee.fparams)
    n = tr.bindname()
    steps.append(f"Py.bind ({callee.lean} {fps + ' ' if fps else ''}{'fuel ' if callee.fuel else ''}{' '.join(codes)}) fun {n} =>")
    return steps, n, parse_type(callee.ret)


def _h_assert_tracked(tr, s):
    if isinstance(s, ast.Assert) and tr.spec.raises:
        st, c, t = tr.tr(s.test)
        return tr.chain(st, f'if {tr.as_bool(c, t)} then .next v else Py.raise (⟨"AssertionError", "", []⟩ : Py.Exc) v')
    return None


def _module_str_dicts(tr):
    """module-level `NAME = {"k": int, …}` / `NAME: T = {…}` constants of the function's source file"""
    p = REPO / tr.spec.file
    if p not in _AST_CACHE:
        _AST_CACHE[p] = ast.parse(p.read_text())
    out = {}
    for nd in _AST_CACHE[p].body:
        tg, val = None, None
        if isinstance(nd, ast.Assign) and len(nd.targets) == 1 and isinstance(nd.targets[0], ast.Name):
            tg, val = nd.targets[0].id, nd.value
        elif isinstance(nd, ast.AnnAssign) and isinstance(nd.target, ast.Name) and nd.value is not None:
            tg, val = nd.target.id, nd.value
        if tg is None or not isinstance(val, ast.Dict):
            continue
        try:
            d = ast.literal_eval(val)
        except (ValueError, SyntaxError):
            continue
        if d and all(isinstance(k, str) for k in d) and all(isinstance(x, int) and not isinstance(x, bool) for x in d.values()):
            out[tg] = d
    return out


def _h_const_dict(tr, e, want):
    if not (isinstance(e, ast.Subscript) and isinstance(e.value, ast.Name) and isinstance(e.ctx, ast.Load) and e.value.id not in tr.vars):
        return None
    d = _module_str_dicts(tr).get(e.value.id)
    if d is None:
        return None
    s0, c, t = tr.tr(e.slice)
    if t != "String":
        raise Untranslatable(f"{tr.spec.lean}: `{ast.unparse(e)}` with a key of type {t}")
    lit = "[" + ", ".join(f"({lean_string(k)}, ({x} : Int))" for k, x in d.items()) + "]"
    n = tr.bindname()
    if tr.spec.raises:
        step = f'Py.bindOrRaise (Py.strLookup {lit} {c}) (⟨"KeyError", "", []⟩ : Py.Exc) v fun {n} =>'
    else:
        step = f"Py.bind (Py.strLookup {lit} {c}) fun {n} =>"
    return s0 + [step], n, "Int"


def _h_track_assign(tr, s):
    """records (never translates) which names the simple statements BEFORE the current one have assigned"""
    if isinstance(s, (ast.Assign, ast.AugAssign, ast.AnnAssign)) and s is not getattr(tr, "_pending_stmt", None):
        if not hasattr(tr, "_assigned"):
            tr._assigned, tr._pending = set(), set()
        tr._assigned |= tr._pending
        tr._pending = {nd.id for nd in ast.walk(s) if isinstance(nd, ast.Name) and isinstance(nd.ctx, ast.Store)}
        tr._pending_stmt = s
    return None


def _h_param_version(tr, e, want):
    if (isinstance(e, ast.Name) and isinstance(e.ctx, ast.Load) and e.id in tr.versions and e.id in tr.spec.params and tr.cur.get(e.id) is None
            and e.id not in getattr(tr, "_assigned", set())):
        return [], f"v.{lname(e.id)}", tr.vars[e.id]
    return None


def _h_int_literal_num(tr, e, want):
    if isinstance(e, ast.Constant) and type(e.value) is int and want in tr.num and e.value in (0, 1):
        return [], f"({e.value} : {want})", want
    return None


SHOW_TYPE_HOOKS.append(lambda t: "Py.Shape" if t == "Shape" else None)     # the shapes of the Monte-Carlo scene (Model/PyVolFront.lean)
EXPR_HOOKS.append(_h_fn_call)
EXPR_HOOKS.append(_h_const_dict)
EXPR_HOOKS.append(_h_param_version)
EXPR_HOOKS.append(_h_int_literal_num)
STMT_HOOKS.insert(0, _h_track_assign)
STMT_HOOKS.append(_h_assert_tracked)

# ============================================================================ the specs =======================================================
_VOL = "swcgeom/analysis/volume.py"
_VFM = "AlgoVolFront"
FN_CALLS["_get_volume_frustum_cone"] = "get_volume_frustum_cone"
FN_CALLS["_get_volume_frustum_cone_mc_only"] = "get_volume_mc_only"

# --- get_volume(tree, *, method, accuracy): `accuracy` an int / one of the names of ACCURACY_LEVELS
_GV = dict(module=_VFM, file=_VOL, func="get_volume", params=["ids", "pids", "method", "accuracy"], num_tparams=["K"], fparams=_VF,
           tree_cols={"tree": {"id": "ids", "pid": "pids"}}, ret="K", fuel=True, raises=True)
spec(lean="get_volume_int", vars={"ids": "List Int", "pids": "List Int", "method": "String", "accuracy": "Int"},
     doc=f"`{_VOL}::get_volume` called with an integer `accuracy` (the tree is its columns `ids`, `pids`; `_get_volume_frustum_cone` is its translation)", **_GV)
spec(lean="get_volume_str", vars={"ids": "List Int", "pids": "List Int", "method": "String", "accuracy": "String", "accuracy#1": "Int"},
     doc=f"`{_VOL}::get_volume` called with a string `accuracy` (a key of `ACCURACY_LEVELS`, read from the source)", **_GV)

# --- _get_volume_frustum_cone_mc_only(tree): a shape is `Py.Shape` (a sphere = its node, a frustum = (node, child)); the scene is the list of the
# shapes added, in order.  TRUSTED GLUE (sdflit is an external binary library; every key is the exact source text):
#   `VolSphere(n.xyz(), n.r)` -> the sphere of node `n`;  `VolFrustumCone(n.xyz(), n.r, c.center, c.radius)` -> the frustum (n, node of c);
#   `scene.add_object(SDFObject(<shape>.sdf, material).into())` -> the shape is appended to the scene;  `scene = ObjectsScene()` -> the empty scene;
#   `material = …`, `scene.set_background(…)`, `scene.build_bvh()`, `vmin, vmax = scene.bounding_box()`, `sampler = …`, `data = …` -> no effect on the
#   modelled data;  `data.sum() / n_samples * np.subtract(vmax, vmin).prod()` -> `mcScene scene` (the Monte-Carlo estimate of the finished scene).
_MF = ["(mcScene : List Py.Shape → K)"]
spec(lean="mc_leave", module=_VFM, file=_VOL, func="_get_volume_frustum_cone_mc_only", nested="leave", params=["n", "children"],
     num_tparams=["K"], fparams=_MF, captures=["scene"],
     vars={"n": "Int", "children": "List Shape", "scene": "List Shape", "sphere": "Shape", "c": "Shape", "fc": "Shape"}, ret="Shape",
     subst={"VolSphere(n.xyz(), n.r)": ("(Py.Shape.sphere v.n)", "Shape"),
            "VolFrustumCone(n.xyz(), n.r, c.center, c.radius)": ("(Py.Shape.frustum v.n v.c.node)", "Shape")},
     stmt_subst={"scene.add_object(SDFObject(sphere.sdf, material).into())": "scene.append(sphere)",
                 "scene.add_object(SDFObject(fc.sdf, material).into())": "scene.append(fc)"},
     doc=f"`{_VOL}::_get_volume_frustum_cone_mc_only`, nested `leave` (the scene is the list of the shapes added to it)")
spec(lean="get_volume_mc_only", module=_VFM, file=_VOL, func="_get_volume_frustum_cone_mc_only", params=["ids", "pids"],
     num_tparams=["K"], fparams=_MF, tree_cols={"tree": {"id": "ids", "pid": "pids"}}, closures={"leave": "mc_leave"},
     vars={"ids": "List Int", "pids": "List Int", "scene": "List Shape", "n_samples": "Int", "volume": "K"}, ret="K", fuel=True,
     skip_stmts=["material = ColoredMaterial((1, 0, 0)).into()", "scene.set_background((0, 0, 0))", "scene.build_bvh()",
                 "vmin, vmax = scene.bounding_box()", "sampler = UniformSampler(vmin, vmax)", "data = sampler.sample(scene.into(), n_samples)"],
     stmt_subst={"scene = ObjectsScene()": "scene = []"},
     subst={"data.sum() / n_samples * np.subtract(vmax, vmin).prod()": ("(mcScene v.scene)", "K")},
     doc=f"`{_VOL}::_get_volume_frustum_cone_mc_only` (the tree is its columns; the scene is the list of shapes; the sampling of the finished scene is `mcScene`)")
FRONT_CALLERS.add("get_volume_mc_only")
