share_hooks("AlgoTravFront", "AlgoVolFront")    # calls of the generated Tree.traverse instantiations, static `isinstance`, …
share_hooks("AlgoVolume", "AlgoVolFront")       # float literals / `sum` over a numeric type parameter, `nonlocal`
share_hooks("AlgoTravFront", "AlgoVolMC")
share_hooks("AlgoVolume", "AlgoVolMC")
# C14 (T24 `volfront`): the front of the volume computation  ->  Gen/AlgoVolFront.lean
#   swcgeom/analysis/volume.py::get_volume                        (the `accuracy` name table, the range assertion, the `match method:` dispatch;
#                                                                  one instantiation per type of `accuracy`: `int` / `str`)
#   swcgeom/analysis/volume.py::_get_volume_frustum_cone_mc_only  (the scene built by the `leave` closure over the traversal; the sdflit sampling
#                                                                  of the finished scene is the parameter `mcScene`)
#   swcgeom/utils/volumetric_object.py                            the DISPATCH methods (see the second half of this file)
#
# GENERAL additions (hooks; nothing is keyed on a function name - the tables `FN_CALLS`, `CLASS_TAGS`, … below the line "the specs" are data):
#   (F1) a call `g(tree, k=…)` of a translated function with PURE FUNCTION PARAMETERS / a numeric type parameter from a function that has the
#        same parameters: they are handed through by name; a tree argument is the caller's columns of that tree.
#   (F2) `assert c` in a function whose exceptions are tracked: `AssertionError` when `c` is false.
#   (F3) `D[k]` on a module-level constant `D = {"a": 1, …}` (string keys, integer values; read from the source on every run): the value,
#        `KeyError` (tracked where the function tracks exceptions) when `k` is no key.
#   (F4) a PARAMETER whose name is later re-bound to a value of another type (`x#1` versions): on entry the name denotes the parameter.
#   (F5) an integer literal `0` / `1` where a value of a numeric type parameter is expected (`return 0` from a float function).
#   (F6) `isinstance(x, str)` on a `String` is true, on an `Int` false (data of 04_travfront's static `isinstance`).
MODULE_IMPORTS["AlgoVolFront"] = ["AlgoTravFront", "AlgoVolume"]
# T30: the Monte-Carlo-only routine lives in its own module Gen/AlgoVolMC.lean, BELOW Gen/AlgoVolume.lean, so that `_get_volume_frustum_cone` calls it
_VMC = "AlgoVolMC"
MODULE_IMPORTS[_VMC] = ["AlgoTravFront"]
MODULE_MODEL_IMPORTS[_VMC] = ["PyVolume", "PyVolFront"]
MODULE_MODEL_IMPORTS["AlgoVolFront"] = ["PyVolume", "PyVolFront"]

_ISINSTANCE["String"] = {"str": True, "int": False, "float": False, "list": False, "tuple": False, "dict": False}
_ISINSTANCE["Int"].setdefault("str", False)

FN_CALLS = {}        # python callee text -> lean name of the translated function it denotes in this group (F1)


def _h_fn_call(tr, e, want):
    if not (isinstance(e, ast.Call) and isinstance(e.func, ast.Name) and e.func.id in FN_CALLS):
        return None
    callee = by_lean_global.get(FN_CALLS[e.func.id])
    if callee is None:
        return None
    if any(b not in tr.spec.fparams for b in callee.fparams) or any(t not in tr.spec.num_tparams for t in callee.num_tparams) or callee.tparams:
        raise Untranslatable(f"{tr.spec.lean}: `{ast.unparse(e)}`: the parameters {callee.fparams} of {callee.lean} are not parameters of the caller")
    if callee.callbacks or callee.out or callee.raises:
        raise Untranslatable(f"{tr.spec.lean}: `{ast.unparse(e)}`: {callee.lean} has callbacks / out-parameters / tracked exceptions")
    if callee.fuel and not tr.spec.fuel:
        raise Untranslatable(f"{tr.spec.lean} calls {callee.lean} which needs fuel")
    kw = {k.arg: k.value for k in e.keywords}
    if None in kw or any(isinstance(x, ast.Starred) for x in e.args):
        raise Untranslatable(f"{tr.spec.lean}: `{ast.unparse(e)}`")
    # the callee's tree parameter -> its column parameters
    args, cols = list(e.args), {}
    if callee.tree_cols:
        (ctree, ccols), = callee.tree_cols.items()
        if not args or ast.unparse(args[0]) not in tr.spec.tree_cols:
            raise Untranslatable(f"{tr.spec.lean}: `{ast.unparse(e)}`: the first argument is not a tree of this function")
        mine = tr.spec.tree_cols[ast.unparse(args.pop(0))]
        for key, var in ccols.items():
            if key not in mine:
                raise Untranslatable(f"{tr.spec.lean}: `{ast.unparse(e)}` needs column `{key}`")
            cols[var] = f"v.{lname(mine[key])}"
    rest = [p for p in callee.params if p not in cols]
    given = dict(zip(rest, args))
    if len(args) > len(rest) or any(k not in rest or k in given for k in kw):
        raise Untranslatable(f"{tr.spec.lean}: arguments of `{ast.unparse(e)}`")
    given.update(kw)
    dfl = fn_defaults(callee)
    steps, codes = [], []
    for pn in callee.params:
        if pn in cols:
            codes.append(cols[pn])
            continue
        x = given.get(pn, dfl.get(pn))
        if x is None:
            raise Untranslatable(f"{tr.spec.lean}: `{ast.unparse(e)}` gives no value for `{pn}`")
        pt = parse_type(callee.vars[pn])
        s0, c, t = tr.tr(x, pt)
        if t != pt:
            raise Untranslatable(f"{tr.spec.lean}: `{ast.unparse(e)}`: `{pn}` is {t}, expected {pt}")
        steps += s0; codes.append(c)
    fps = " ".join(b.split()[0].strip("(") for b in callee.fparams)
    n = tr.bindname()
    steps.append(f"Py.bind ({callee.lean} {fps + ' ' if fps else ''}{'fuel ' if callee.fuel else ''}{' '.join(codes)}) fun {n} =>")
    return steps, n, parse_type(callee.ret)


def _h_assert_tracked(tr, s):
    if isinstance(s, ast.Assert) and tr.spec.raises:
        st, c, t = tr.tr(s.test)
        return tr.chain(st, f'if {tr.as_bool(c, t)} then .next v else Py.raise (⟨"AssertionError", "", []⟩ : Py.Exc) v')
    return None


def _module_str_dicts(tr):
    """module-level `NAME = {"k": int, …}` / `NAME: T = {…}` constants of the function's source file"""
    p = REPO / tr.spec.file
    if p not in _AST_CACHE:
        _AST_CACHE[p] = ast.parse(p.read_text())
    out = {}
    for nd in _AST_CACHE[p].body:
        tg, val = None, None
        if isinstance(nd, ast.Assign) and len(nd.targets) == 1 and isinstance(nd.targets[0], ast.Name):
            tg, val = nd.targets[0].id, nd.value
        elif isinstance(nd, ast.AnnAssign) and isinstance(nd.target, ast.Name) and nd.value is not None:
            tg, val = nd.target.id, nd.value
        if tg is None or not isinstance(val, ast.Dict):
            continue
        try:
            d = ast.literal_eval(val)
        except (ValueError, SyntaxError):
            continue
        if d and all(isinstance(k, str) for k in d) and all(isinstance(x, int) and not isinstance(x, bool) for x in d.values()):
            out[tg] = d
    return out


def _h_const_dict(tr, e, want):
    if not (isinstance(e, ast.Subscript) and isinstance(e.value, ast.Name) and isinstance(e.ctx, ast.Load) and e.value.id not in tr.vars):
        return None
    d = _module_str_dicts(tr).get(e.value.id)
    if d is None:
        return None
    s0, c, t = tr.tr(e.slice)
    if t != "String":
        raise Untranslatable(f"{tr.spec.lean}: `{ast.unparse(e)}` with a key of type {t}")
    lit = "[" + ", ".join(f"({lean_string(k)}, ({x} : Int))" for k, x in d.items()) + "]"
    n = tr.bindname()
    if tr.spec.raises:
        step = f'Py.bindOrRaise (Py.strLookup {lit} {c}) (⟨"KeyError", "", []⟩ : Py.Exc) v fun {n} =>'
    else:
        step = f"Py.bind (Py.strLookup {lit} {c}) fun {n} =>"
    return s0 + [step], n, "Int"


def _h_track_assign(tr, s):
    """records (never translates) which names the simple statements BEFORE the current one have assigned"""
    if isinstance(s, (ast.Assign, ast.AugAssign, ast.AnnAssign)) and s is not getattr(tr, "_pending_stmt", None):
        if not hasattr(tr, "_assigned"):
            tr._assigned, tr._pending = set(), set()
        tr._assigned |= tr._pending
        tr._pending = {nd.id for nd in ast.walk(s) if isinstance(nd, ast.Name) and isinstance(nd.ctx, ast.Store)}
        tr._pending_stmt = s
    return None


def _h_param_version(tr, e, want):
    if (isinstance(e, ast.Name) and isinstance(e.ctx, ast.Load) and e.id in tr.versions and e.id in tr.spec.params and tr.cur.get(e.id) is None
            and e.id not in getattr(tr, "_assigned", set())):
        return [], f"v.{lname(e.id)}", tr.vars[e.id]
    return None


def _h_int_literal_num(tr, e, want):
    if isinstance(e, ast.Constant) and type(e.value) is int and want in tr.num and e.value in (0, 1):
        return [], f"({e.value} : {want})", want
    return None


SHOW_TYPE_HOOKS.append(lambda t: "Py.Shape" if t == "Shape" else None)     # the shapes of the Monte-Carlo scene (Model/PyVolFront.lean)
EXPR_HOOKS.append(_h_fn_call)
EXPR_HOOKS.append(_h_const_dict)
EXPR_HOOKS.append(_h_param_version)
EXPR_HOOKS.append(_h_int_literal_num)
STMT_HOOKS.append(_h_track_assign)
STMT_HOOKS.append(_h_assert_tracked)

# ---- the dispatch layer of utils/volumetric_object.py: volumetric objects are IMMUTABLE TERMS `Py.VObj` (a sphere = its node, a frustum = the pair
# (node, child), a composite = its class name and its two operands `obj1`, `obj2`) -------------------------------------------------------------
#   (G1) `isinstance(x, C)` on a `VObj`: the object's class is `C` or one of its subclasses; the class hierarchy (every `class A(B, …)` of the
#        source file, `Generic[…]`-style subscripts stripped) is READ FROM THE SOURCE on every run and written into the test.
#   (G2) `C(a, b)` with `C` a class of the source file listed in `OBJ_COMPOSITES` and `a`, `b` objects: the composite term of class `C`.
#   (G3) `super().m(args)` / `return super().m(args)` in a method of class `C`: the translated method `m` of the nearest base class of `C` (in the
#        order of the `class` statement, depth first) that defines `m`; exceptions propagate (`Py.bindX`).
#   (G4) `x.obj1`, `x.obj2` on a `VObj`: the operands of a composite (`none` = AttributeError on a primitive).
def _class_table(tr):
    p = REPO / tr.spec.file
    if p not in _AST_CACHE:
        _AST_CACHE[p] = ast.parse(p.read_text())
    out = {}
    for nd in _AST_CACHE[p].body:
        if isinstance(nd, ast.ClassDef):
            bases = []
            for b in nd.bases:
                while isinstance(b, ast.Subscript):
                    b = b.value
                if isinstance(b, ast.Name):
                    bases.append(b.id)
            out[nd.name] = (bases, {x.name for x in nd.body if isinstance(x, ast.FunctionDef)})
    return out


def _hier_literal(tr):
    return "[" + ", ".join(f"({lean_string(c)}, [{', '.join(lean_string(b) for b in bs)}])" for c, (bs, _) in _class_table(tr).items()) + "]"


def _h_isinstance_vobj(tr, e, want):
    if not (isinstance(e, ast.Call) and isinstance(e.func, ast.Name) and e.func.id == "isinstance" and len(e.args) == 2 and not e.keywords):
        return None
    s0, c, t = tr.tr(e.args[0])
    if t != "VObj":
        return None
    if not (isinstance(e.args[1], ast.Name) and e.args[1].id in _class_table(tr)):
        raise Untranslatable(f"{tr.spec.lean}: `{ast.unparse(e)}`: not a class of {tr.spec.file}")
    return s0, f"(Py.VObj.isA {_hier_literal(tr)} {c} {lean_string(e.args[1].id)})", "Bool"


OBJ_COMPOSITES = set()      # classes whose instances are the composite terms (their `__init__(self, obj1, obj2)` stores the two operands)
METHOD_SPECS = {}           # (class, method) -> lean name of its translation


def _h_composite_ctor(tr, e, want):
    if not (isinstance(e, ast.Call) and isinstance(e.func, ast.Name) and e.func.id in OBJ_COMPOSITES and len(e.args) == 2 and not e.keywords):
        return None
    if e.func.id not in _class_table(tr):
        raise Untranslatable(f"{tr.spec.lean}: `{e.func.id}` is no class of {tr.spec.file}")
    s1, a, ta = tr.tr(e.args[0]); s2, b, tb = tr.tr(e.args[1])
    if ta != "VObj" or tb != "VObj":
        raise Untranslatable(f"{tr.spec.lean}: `{ast.unparse(e)}` of {ta}, {tb}")
    return s1 + s2, f"(Py.VObj.node {lean_string(e.func.id)} {a} {b})", "VObj"


def _super_target(tr, meth):
    tab = _class_table(tr)
    def find(c):
        for b in tab.get(c, ([], set()))[0]:
            if b in tab and meth in tab[b][1]:
                return b
            r = find(b)
            if r is not None:
                return r
        return None
    return find(tr.spec.cls)


def _h_super_call(tr, e, want):
    if not (isinstance(e, ast.Call) and isinstance(e.func, ast.Attribute) and ast.unparse(e.func.value) == "super()" and tr.spec.cls):
        return None
    base = _super_target(tr, e.func.attr)
    if base is None or (base, e.func.attr) not in METHOD_SPECS:
        raise Untranslatable(f"{tr.spec.lean}: `{ast.unparse(e)}`: `{e.func.attr}` of {base} is not translated")
    callee = by_lean_global[METHOD_SPECS[(base, e.func.attr)]]
    if e.keywords or len(e.args) + 1 != len(callee.params) or callee.fparams or callee.fuel or callee.out or not (callee.raises and tr.spec.raises):
        raise Untranslatable(f"{tr.spec.lean}: `{ast.unparse(e)}`")
    steps, codes = [], ["v.self"]
    for x, pn in zip(e.args, callee.params[1:]):
        s0, c, t = tr.tr(x, parse_type(callee.vars[pn]))
        if t != parse_type(callee.vars[pn]):
            raise Untranslatable(f"{tr.spec.lean}: `{ast.unparse(e)}`: `{pn}` is {t}")
        steps += s0; codes.append(c)
    n = tr.bindname()
    steps.append(f"Py.bindX ({callee.lean} {' '.join(codes)}) v fun {n} =>")
    return steps, n, parse_type(callee.ret)


def _h_operand(tr, e, want):
    if not (isinstance(e, ast.Attribute) and e.attr in ("obj1", "obj2") and isinstance(e.ctx, ast.Load)):
        return None
    s0, c, t = tr.tr(e.value)
    if t != "VObj":
        return None
    n = tr.bindname()
    return s0 + [f"Py.bind (Py.VObj.{e.attr} {c}) fun {n} =>"], n, "VObj"


SHOW_TYPE_HOOKS.append(lambda t: "Py.VObj" if t == "VObj" else None)
EXPR_HOOKS.append(_h_isinstance_vobj)
EXPR_HOOKS.append(_h_composite_ctor)
EXPR_HOOKS.append(_h_super_call)
EXPR_HOOKS.append(_h_operand)

# ============================================================================ the specs =======================================================
_VOL = "swcgeom/analysis/volume.py"
_VFM = "AlgoVolFront"
FN_CALLS["_get_volume_frustum_cone"] = "get_volume_frustum_cone"
FN_CALLS["_get_volume_frustum_cone_mc_only"] = "get_volume_mc_only"

# --- get_volume(tree, *, method, accuracy): `accuracy` an int / one of the names of ACCURACY_LEVELS
_GV = dict(module=_VFM, file=_VOL, func="get_volume", params=["ids", "pids", "method", "accuracy"], num_tparams=["K"], fparams=_VF,
           tree_cols={"tree": {"id": "ids", "pid": "pids"}}, ret="K", fuel=True, raises=True)
spec(lean="get_volume_int", vars={"ids": "List Int", "pids": "List Int", "method": "String", "accuracy": "Int"},
     doc=f"`{_VOL}::get_volume` called with an integer `accuracy` (the tree is its columns `ids`, `pids`; `_get_volume_frustum_cone` is its translation)", **_GV)
spec(lean="get_volume_str", vars={"ids": "List Int", "pids": "List Int", "method": "String", "accuracy": "String", "accuracy#1": "Int"},
     doc=f"`{_VOL}::get_volume` called with a string `accuracy` (a key of `ACCURACY_LEVELS`, read from the source)", **_GV)

# --- _get_volume_frustum_cone_mc_only(tree): a shape is `Py.Shape` (a sphere = its node, a frustum = (node, child)); the scene is the list of the
# shapes added, in order.  TRUSTED GLUE (sdflit is an external binary library; every key is the exact source text):
#   `VolSphere(n.xyz(), n.r)` -> the sphere of node `n`;  `VolFrustumCone(n.xyz(), n.r, c.center, c.radius)` -> the frustum (n, node of c);
#   `scene.add_object(SDFObject(<shape>.sdf, material).into())` -> the shape is appended to the scene;  `scene = ObjectsScene()` -> the empty scene;
#   `material = …`, `scene.set_background(…)`, `scene.build_bvh()`, `vmin, vmax = scene.bounding_box()`, `sampler = …`, `data = …` -> no effect on the
#   modelled data;  `data.sum() / n_samples * np.subtract(vmax, vmin).prod()` -> `mcScene scene` (the Monte-Carlo estimate of the finished scene).
_MF = ["(mcScene : List Py.Shape → K)"]
spec(lean="mc_leave", module=_VMC, file=_VOL, func="_get_volume_frustum_cone_mc_only", nested="leave", params=["n", "children"],
     num_tparams=["K"], fparams=_MF, captures=["scene"],
     vars={"n": "Int", "children": "List Shape", "scene": "List Shape", "sphere": "Shape", "c": "Shape", "fc": "Shape"}, ret="Shape",
     subst={"VolSphere(n.xyz(), n.r)": ("(Py.Shape.sphere v.n)", "Shape"),
            "VolFrustumCone(n.xyz(), n.r, c.center, c.radius)": ("(Py.Shape.frustum v.n v.c.node)", "Shape")},
     stmt_subst={"scene.add_object(SDFObject(sphere.sdf, material).into())": "scene.append(sphere)",
                 "scene.add_object(SDFObject(fc.sdf, material).into())": "scene.append(fc)"},
     doc=f"`{_VOL}::_get_volume_frustum_cone_mc_only`, nested `leave` (the scene is the list of the shapes added to it)")
spec(lean="get_volume_mc_only", module=_VMC, file=_VOL, func="_get_volume_frustum_cone_mc_only", params=["ids", "pids"],
     num_tparams=["K"], fparams=_MF, tree_cols={"tree": {"id": "ids", "pid": "pids"}}, closures={"leave": "mc_leave"},
     vars={"ids": "List Int", "pids": "List Int", "scene": "List Shape", "n_samples": "Int", "volume": "K"}, ret="K", fuel=True,
     skip_stmts=["material = ColoredMaterial((1, 0, 0)).into()", "scene.set_background((0, 0, 0))", "scene.build_bvh()",
                 "vmin, vmax = scene.bounding_box()", "sampler = UniformSampler(vmin, vmax)", "data = sampler.sample(scene.into(), n_samples)"],
     stmt_subst={"scene = ObjectsScene()": "scene = []"},
     subst={"data.sum() / n_samples * np.subtract(vmax, vmin).prod()": ("(mcScene v.scene)", "K")},
     doc=f"`{_VOL}::_get_volume_frustum_cone_mc_only` (the tree is its columns; the scene is the list of shapes; the sampling of the finished scene is `mcScene`)")
FRONT_CALLERS.add("get_volume_mc_only")

# --- utils/volumetric_object.py: which composite object `a.union(b)` / `a.intersect(b)` builds (or which exception is raised)
_VO = "swcgeom/utils/volumetric_object.py"
OBJ_COMPOSITES |= {"VolSDFUnion", "VolSDFIntersection", "VolSDFDifference", "VolSphere2Union", "VolSphere2Intersection",
                   "VolSphereFrustumConeUnion", "VolSphereFrustumConeIntersection"}
for _cls, _ms in (("VolSDFObject", ["union", "intersect", "subtract"]), ("VolSphere", ["union", "intersect"]), ("VolFrustumCone", ["union", "intersect"])):
    for _m in _ms:
        _ln = {"VolSDFObject": "sdf", "VolSphere": "sphere", "VolFrustumCone": "frustum"}[_cls] + "_" + _m
        METHOD_SPECS[(_cls, _m)] = _ln
        spec(lean=_ln, module=_VFM, file=_VO, cls=_cls, func=_m, params=["self", "obj"], vars={"self": "VObj", "obj": "VObj"}, ret="VObj", raises=True,
             doc=f"`{_VO}::{_cls}.{_m}` (objects are the terms `Py.VObj`)")

# --- the `_get_volume` of the composites and the cache of `VolObject.get_volume`.  TRUSTED GLUE (every key is the exact source text):
#   `<x>.get_volume()` on an operand -> `getVolume <x>` (the volume of an object - virtual dispatch and cache - as a pure parameter);
#   `VolSphereFrustumConeIntersection.calc_concentric_intersect_volume(a, b)` / `self.calc_concentric_intersect_volume(a, b)` -> `concentric a b`,
#   `VolSphere2Intersection.calc_intersect_volume(a, b)` -> `lens a b` (the closed forms: harness/translate.py, C13);
#   the four `np.allclose(…)` tests -> the parameters `sameC1`, `sameR1`, `sameC2`, `sameR2` of the two operands;
#   `super()._get_volume()` of the sphere-frustum intersection -> `mcVolume self` (VolMCObject._get_volume, the Monte-Carlo estimator);
#   in `VolObject.get_volume`: `self.volume` is the variable `volume` (returned with the result), `self._get_volume()` -> `compute`,
#   `len(kwargs)` -> 0 and `self._get_volume(**kwargs)` -> `compute` (the instantiation "called without keyword arguments").
_GVF = ["(getVolume : Py.VObj → K)", "(concentric : Py.VObj → Py.VObj → K)", "(lens : Py.VObj → Py.VObj → K)", "(mcVolume : Py.VObj → K)",
        "(sameC1 : Py.VObj → Py.VObj → Bool)", "(sameR1 : Py.VObj → Py.VObj → Bool)", "(sameC2 : Py.VObj → Py.VObj → Bool)", "(sameR2 : Py.VObj → Py.VObj → Bool)"]
_OPS = {"self.obj1.get_volume()": ("(getVolume o1_)", "K", ["Py.bind (Py.VObj.obj1 v.self) fun o1_ =>"]),
        "self.obj2.get_volume()": ("(getVolume o2_)", "K", ["Py.bind (Py.VObj.obj2 v.self) fun o2_ =>"])}
spec(lean="sfu_get_volume", module=_VFM, file=_VO, cls="VolSphereFrustumConeUnion", func="_get_volume", params=["self"], num_tparams=["K"], fparams=_GVF,
     vars={"self": "VObj"}, ret="K",
     subst=dict(_OPS, **{"VolSphereFrustumConeIntersection.calc_concentric_intersect_volume(self.obj1, self.obj2)":
                         ("(concentric a_ b_)", "K", ["Py.bind (Py.VObj.obj1 v.self) fun a_ =>", "Py.bind (Py.VObj.obj2 v.self) fun b_ =>"])}),
     doc=f"`{_VO}::VolSphereFrustumConeUnion._get_volume` (inclusion–exclusion at the union node; the volumes of the operands and the closed form are parameters)")
spec(lean="s2u_get_volume", module=_VFM, file=_VO, cls="VolSphere2Union", func="_get_volume", params=["self"], num_tparams=["K"], fparams=_GVF,
     vars={"self": "VObj"}, ret="K",
     subst=dict(_OPS, **{"VolSphere2Intersection.calc_intersect_volume(self.obj1, self.obj2)":
                         ("(lens a_ b_)", "K", ["Py.bind (Py.VObj.obj1 v.self) fun a_ =>", "Py.bind (Py.VObj.obj2 v.self) fun b_ =>"])}),
     doc=f"`{_VO}::VolSphere2Union._get_volume` (inclusion–exclusion at the union node)")
_AB = ["Py.bind (Py.VObj.obj1 v.self) fun a_ =>", "Py.bind (Py.VObj.obj2 v.self) fun b_ =>"]
spec(lean="sfi_get_volume", module=_VFM, file=_VO, cls="VolSphereFrustumConeIntersection", func="_get_volume", params=["self"], num_tparams=["K"], fparams=_GVF,
     vars={"self": "VObj"}, ret="K",
     subst={"np.allclose(self.obj1.center, self.obj2.c1)": ("(sameC1 a_ b_)", "Bool", _AB),
            "np.allclose(self.obj1.radius, self.obj2.r1)": ("(sameR1 a_ b_)", "Bool", _AB),
            "np.allclose(self.obj1.center, self.obj2.c2)": ("(sameC2 a_ b_)", "Bool", _AB),
            "np.allclose(self.obj1.radius, self.obj2.r2)": ("(sameR2 a_ b_)", "Bool", _AB),
            "self.calc_concentric_intersect_volume(self.obj1, self.obj2)": ("(concentric a_ b_)", "K", _AB),
            "super()._get_volume()": ("(mcVolume v.self)", "K")},
     doc=f"`{_VO}::VolSphereFrustumConeIntersection._get_volume` (closed form when the sphere sits on one end of the frustum, Monte Carlo otherwise)")
spec(lean="obj_get_volume", module=_VFM, file=_VO, cls="VolObject", func="get_volume", params=["volume"], out=["volume"], num_tparams=["K"],
     fparams=["(compute : K)"], vars={"volume": "Option K"}, ret="K", stores={"self.volume": "volume"},
     subst={"self.volume": ("v.volume", "Option K"), "self._get_volume()": ("compute", "K"), "self._get_volume(**kwargs)": ("compute", "K"),
            "len(kwargs)": ("(0 : Int)", "Int")},
     doc=f"`{_VO}::VolObject.get_volume` called without keyword arguments (the cache `self.volume` is the variable `volume`; `self._get_volume()` is `compute`)")
