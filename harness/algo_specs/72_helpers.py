# C09 (session 4, T41 `helpers`): the remaining object helpers on the routes C09 observes  ->  Gen/AlgoHelpers.lean
#   swcgeom/core/path.py         Path.get_node, Path.__iter__
#   swcgeom/core/tree.py         Tree.__iter__
#   swcgeom/core/branch.py       Branch.detach
#   swcgeom/core/compartment.py  Compartment.detach   (a compartment of a tree: a Path of two rows)
#
# Data, records and hooks are those of 70_views.py (the hooks of AlgoViews also serve this module); calls go to the definitions of
# Gen/AlgoViews.lean (`path_node`, `path_len`, `path_getitem_str`, `path_keys`, `path_id`, `path_pid`, `dictswc_init`, `path_init`, `tcomp_init`).
#
# TRUSTED GLUE
#   * a generator expression is translated as the list of its values (the translator's built-in rule): `Path.__iter__` = the list of handles
#     in iteration order.  A record holds `attach` by value (70_views.py): that a handle yielded LATER sees stores made EARLIER through the tree
#     is the aliasing assumption of 70_views.py (the runner rebuilds the view from the owner's current value), exercised by the `it` op.
#   * stmt_subst (Branch.detach / Compartment.detach): `attact = DictSWC(**{…}, source=self.attach.source, names=self.names)` ->
#     `attact = DictSWC({…}, self.names)` (`**kwargs` of DictSWC.__init__ is the dict literal itself; `source` is a text, not modelled)
#   * method resolution: `Branch(a, i)` is `Path.__init__` (Branch defines no `__init__`); `Compartment(a, p, i)` is `Compartment.__init__`;
#     `self[k]` on a Branch / Compartment is `Path.__getitem__` (neither class overrides it); `self.keys()` on a Branch is `Branch.keys`, whose text
#     repeats `Path.keys` (translated as `path_keys`); a Compartment inherits `Path.keys`.

MODULE_IMPORTS["AlgoHelpers"] = ["AlgoViews"]
MODULE_MODEL_IMPORTS["AlgoHelpers"] = ["PyViews"]
HOOK_MODULES.add("AlgoHelpers")
share_hooks("AlgoViews", "AlgoHelpers")
_H = "AlgoHelpers"


def _hspec(key=None, ctors=None, **kw):
    f = spec(module=_H, **kw)
    for k in ([key] if isinstance(key, str) else key or []):
        CALLEES[k] = f.lean
    if ctors:
        VIEW_CTORS[f.lean] = ctors
    return f


_hspec("get_node#Path", lean="path_get_node", file=_PATH, cls="Path", func="get_node", params=["self", "idx"],
       vars={"self": "Path", "idx": "Int"}, ret="PNode")
_hspec("__iter__#Path", lean="path_iter", file=_PATH, cls="Path", func="__iter__", params=["self"],
       vars={"self": "Path", "i": "Int"}, ret="List PNode",
       doc="`swcgeom/core/path.py::Path.__iter__` (the generator as the list of the handles it yields, in order)")
_hspec("__iter__#DictSWC", lean="tree_iter", file=_TREE_PY, cls="Tree", func="__iter__", params=["self"],
       vars={"self": "DictSWC", "i": "Int"}, ret="List TNode",
       doc="`swcgeom/core/tree.py::Tree.__iter__` (the generator as the list of the handles it yields, in order)")
_DETACH_SUBST = {"attact = DictSWC(**{k: self[k] for k in self.keys()}, source=self.attach.source, names=self.names)":
                 "attact = DictSWC({k: self[k] for k in self.keys()}, self.names)"}
_hspec("detach#Branch", lean="branch_detach", file="swcgeom/core/branch.py", cls="Branch", func="detach", params=["self"],
       vars={"self": "Path", "attact": "DictSWC", "k": "String"}, ret="Path", ctors={"DictSWC": "dictswc_init", "Branch": "path_init"},
       stmt_subst=_DETACH_SUBST)
_hspec("detach#Compartment", lean="tcomp_detach", file=_COMP, cls="Compartment", func="detach", params=["self"],
       vars={"self": "Path", "attact": "DictSWC", "k": "String"}, ret="Path", ctors={"DictSWC": "dictswc_init", "Compartment": "tcomp_init"},
       stmt_subst=_DETACH_SUBST)

# ----------------------------------------------------------------------------- C05 / C07: the public wrapper of the tree sort  ->  Gen/AlgoSortWrap.lean
#   swcgeom/core/tree_utils.py::sort_tree = `return _sort_tree(tree.copy())`
# The tree is its column variables (as for `_sort_tree` / `redirect_tree` in translate_algo.py).  TRUSTED GLUE: `tree_cols` names the expression
# `tree.copy()` as the tree whose columns are the local variables `ids`, `pids`, `types`: `Tree.copy()` is `deepcopy` (translated as DictSWC.copy in
# Gen/AlgoViews.lean, `C09.generated_copy`): the same column VALUES in fresh storage, so the callee's in-place update lands in the locals and the
# caller's tree keeps its columns (the function is pure in Lean; that the input is unchanged is observed by the c05 suite, `*_input_unchanged`).
# If the text of the call changes (e.g. `_sort_tree(tree)`, no copy) the key no longer matches and the translation FAILS.
MODULE_IMPORTS["AlgoSortWrap"] = ["AlgoRedirect"]
spec(lean="sort_tree", module="AlgoSortWrap", file="swcgeom/core/tree_utils.py", func="sort_tree", params=["ids", "pids", "types"],
     vars={"ids": "List Int", "pids": "List Int", "types": "List Int"}, ret="Unit", out=["ids", "pids", "types"], fuel=True,
     tree_cols={"tree.copy()": {"id": "ids", "pid": "pids", "type": "types"}},
     doc="`swcgeom/core/tree_utils.py::sort_tree` (the copy of the tree is the local columns `ids`, `pids`, `types`; they are returned)")
