# C17: the greedy loop of `PointsToCuntzMST.__call__` (swcgeom/transforms/mst.py), from `pid = np.full(n, fill_value=-1)` to the end of
# `for _ in range(n - 1)`.  The statements before the segment compute its parameters `n` (number of points) and `dis` (the distance matrix), the
# statements after it build the tree from `pid`.  Float arrays (`dis`, `acc`, the cost) are arrays over the numeric type parameter `K`.
# Trusted glue: the three `subst` entries (an attribute of `self` is the parameter of that name).
spec(lean="mst_loop", module="AlgoMst", file="swcgeom/transforms/mst.py", cls="PointsToCuntzMST", func="__call__",
     seg_from="pid = np.full(n, fill_value=-1)", seg_to="for _ in range(n - 1):",
     params=["n", "dis", "bf", "limit", "exclude_soma"], num_tparams=["K"],
     vars={"n": "Int", "dis": "List (List K)", "bf": "K", "limit": "Int", "exclude_soma": "Bool",
           "pid": "List Int", "acc": "List K", "furcations": "List Int", "conn": "List Bool", "mask": "List (List Bool)",
           "cost": "Masked2 K", "i": "Int", "j": "Int"},
     ret="Unit", out=["pid", "acc", "furcations", "conn", "mask"],
     subst={"self.bf": ("v.bf", "K"), "self.furcations": ("v.limit", "Int"), "self.exclude_soma": ("v.exclude_soma", "Bool")},
     doc="`swcgeom/transforms/mst.py::PointsToCuntzMST.__call__`, the greedy loop (from `pid = np.full(n, fill_value=-1)` to the end of "
         "`for _ in range(n - 1)`); `n`, `dis` are computed before it, `self.bf` / `self.furcations` / `self.exclude_soma` are the parameters "
         "`bf` / `limit` / `exclude_soma`")
