# C17 (T27 `mstfront`): the WHOLE body of `swcgeom/transforms/mst.py::PointsToCuntzMST.__call__` up to the construction of the tree
# (`t = Tree.from_data_frame(df, names=names)`): soma handling, the distance matrix, the greedy loop, the assembly of the SWC table
#   ->  Gen/AlgoMstFront.lean, over a numeric type parameter `K` (run at `Rat` by the driver op `gmstcall`).
# Executed in the namespace of harness/translate_algo.py.
#
# New constructs (GENERAL Python / numpy idioms; their meaning is lean/SwcVerif/Model/PyMstFront.lean), added through the extension hooks:
#   X is None / X is not None        X a variable of a NON-optional declared type          false / true
#   np.array(X)                      X : Option (List K) / List K (already an array-like)    X  (the array of an array-like is that array)
#   X.shape == (c,)                  X : List α or Option (List α) (`None.shape` raises)     len X = c
#   np.concatenate([A, B])           A, B 2-d arrays (`[row]` is the 2-d array of one row)   Py.concatRows A B   (width mismatch raises)
#   np.linalg.norm(P.reshape((-1, 1, d)) - P.reshape((1, -1, d)), axis=2)   P : (N, d)       Py.pairwiseNorm norm d P, `norm : List K → K` a
#                                                                                           PURE FUNCTION PARAMETER of the spec (fparams)
#   P[:, c]                          P a 2-d array, c an int literal                         Py.column P c
#   D = {names.<col>: e, …}          D a table that IS column variables (`tree_cols[D]`)     col := e for every entry, in order
#   D[names.<col>][i] = e            same                                                    col[i] = e
#   X = pd.DataFrame.from_dict(D), X = Tree.from_data_frame(D, names=names)
#                                    D and X tables over the SAME column variables           nothing (the frame / tree IS its columns)
#
# TRUSTED GLUE of this file (every entry replaces source text by its meaning on the modelled data; a change of the source text makes the key
# miss and the translator FAILS):
#   * `self.bf` / `self.furcations` / `self.exclude_soma` are the parameters `bf` / `limit` / `exclude_soma` (as in 17_mstloop.py);
#     `self.types.glia_processes` / `self.types.soma` are the parameters `t_glia` / `t_soma`;
#   * the legacy parameter `names` is absent (`absent`), `names = self.names` is skipped: the names only choose the LABELS of the columns, and
#     the table is modelled as the column variables `ids, types, xs, ys, zs, rs, pid` keyed by the field (`tree_cols` of `dic`, `df`, `t`);
#   * `names.r: 1` stores the SCALAR 1 (`rs : Int`): `DataFrame.from_dict` broadcasts it to every row;
#   * `Tree.from_data_frame(df, names=names)` is the tree over the frame's columns; `Tree.__init__` STORES x, y, z, r as float32 and id, type, pid as
#     int32: the generated definition returns the columns BEFORE that cast (harness/props/c17.py compares the real tree's coordinates with the
#     float32 cast of the generated ones);
#   * the segment ends at the construction of the tree: the final `if self.sort: t = sort_tree(t)` is NOT part of the definition
#     (`_sort_tree` is translated and proved separately: Gen/AlgoRedirect `sort_tree_`, Gen/AlgoCat `sort_tree6_`).
MODULE_MODEL_IMPORTS["AlgoMstFront"] = ["PyMstFront"]


def _mf_is2(t):
    return isinstance(t, tuple) and t[0] == "List" and isinstance(t[1], tuple) and t[1][0] == "List"


def _mf_table(tr, e):
    """the column variables of a table-valued NAME (`tree_cols`), else None"""
    if isinstance(e, ast.Name) and e.id in tr.spec.tree_cols and e.id not in tr.vars:
        return tr.spec.tree_cols[e.id]
    return None


def _mf_names_col(tr, k, cols):
    if not (isinstance(k, ast.Attribute) and isinstance(k.value, ast.Name) and k.value.id == "names"):
        return None
    if k.attr not in cols:
        raise Untranslatable(f"{tr.spec.lean}: column `{ast.unparse(k)}` is not modelled")
    return cols[k.attr]


def _mf_reshape_of(e, shape):
    """`P.reshape(shape)` -> P (an ast) when `e` has that form with the given tuple of ints (None = the dimension `d`), else None"""
    if not (isinstance(e, ast.Call) and isinstance(e.func, ast.Attribute) and e.func.attr == "reshape" and len(e.args) == 1 and not e.keywords
            and isinstance(e.args[0], ast.Tuple) and len(e.args[0].elts) == 3):
        return None
    vals = []
    for x in e.args[0].elts:
        try:
            vals.append(ast.literal_eval(x))
        except Exception:
            return None
    if not all(isinstance(x, int) for x in vals) or vals[2] <= 0 or tuple(vals[:2]) != shape:
        return None
    return e.func.value, vals[2]


def _mf_expr(tr, e, want):
    # X is None / X is not None, X of a non-optional declared type
    if (isinstance(e, ast.Compare) and len(e.ops) == 1 and isinstance(e.ops[0], (ast.Is, ast.IsNot)) and isinstance(e.left, ast.Name)
            and isinstance(e.comparators[0], ast.Constant) and e.comparators[0].value is None and e.left.id in tr.vars):
        t = tr.vars[e.left.id]
        if not (isinstance(t, tuple) and t[0] == "Option"):
            return [], "true" if isinstance(e.ops[0], ast.IsNot) else "false", "Bool"
        return None
    # X.shape == (c,)
    if (isinstance(e, ast.Compare) and len(e.ops) == 1 and isinstance(e.ops[0], ast.Eq) and isinstance(e.left, ast.Attribute)
            and e.left.attr == "shape" and isinstance(e.comparators[0], ast.Tuple) and len(e.comparators[0].elts) == 1
            and isinstance(e.comparators[0].elts[0], ast.Constant) and isinstance(e.comparators[0].elts[0].value, int)):
        s0, c, t = tr.tr(e.left.value)
        if isinstance(t, tuple) and t[0] == "Option":
            n0 = tr.bindname()
            s0, c, t = s0 + [f"Py.bind ({c}) fun {n0} =>"], n0, t[1]
        if isinstance(t, tuple) and t[0] == "List" and not isinstance(t[1], tuple):
            return s0, f"(decide (Py.len {c} = ({e.comparators[0].elts[0].value} : Int)))", "Bool"
        return None
    if isinstance(e, ast.Call):
        f = ast.unparse(e.func)
        # np.array(X), X already an array
        if f == "np.array" and len(e.args) == 1 and not e.keywords:
            s0, c, t = tr.tr(e.args[0], want)
            inner = t[1] if isinstance(t, tuple) and t[0] == "Option" else t
            if isinstance(inner, tuple) and inner[0] == "List" and inner[1] in tr.num:
                return s0, c, t
            return None
        # np.concatenate([A, B]) of 2-d arrays
        if f == "np.concatenate" and len(e.args) == 1 and not e.keywords and isinstance(e.args[0], ast.List) and len(e.args[0].elts) == 2:
            parts = []
            steps = []
            for x in e.args[0].elts:
                if isinstance(x, ast.List) and len(x.elts) == 1:          # `[row]`: the 2-d array of one row
                    s0, c, t = tr.tr(x.elts[0])
                    if isinstance(t, tuple) and t[0] == "Option":
                        n0 = tr.bindname()
                        s0, c, t = s0 + [f"Py.bind ({c}) fun {n0} =>"], n0, t[1]
                    s0, c, t = s0, f"[{c}]", ("List", t)
                else:
                    s0, c, t = tr.tr(x)
                if not (_mf_is2(t) and t[1][1] in tr.num):
                    return None
                steps += s0; parts.append((c, t))
            if parts[0][1] != parts[1][1]:
                return None
            n = tr.bindname()
            return steps + [f"Py.bind (Py.concatRows {parts[0][0]} {parts[1][0]}) fun {n} =>"], n, parts[0][1]
        # np.linalg.norm(P.reshape((-1, 1, d)) - P.reshape((1, -1, d)), axis=2)
        if (f == "np.linalg.norm" and len(e.args) == 1 and [k.arg for k in e.keywords] == ["axis"]
                and isinstance(e.keywords[0].value, ast.Constant) and e.keywords[0].value.value == 2
                and isinstance(e.args[0], ast.BinOp) and isinstance(e.args[0].op, ast.Sub)):
            a = _mf_reshape_of(e.args[0].left, (-1, 1)); b = _mf_reshape_of(e.args[0].right, (1, -1))
            if a is None or b is None or ast.unparse(a[0]) != ast.unparse(b[0]) or a[1] != b[1]:
                return None
            if not any(fp.split()[0].strip("(") == "norm" for fp in tr.spec.fparams):
                raise Untranslatable(f"{tr.spec.lean}: `np.linalg.norm(…, axis=2)` needs the pure-function parameter `(norm : List K → K)`")
            s0, c, t = tr.tr(a[0])
            if not (_mf_is2(t) and t[1][1] in tr.num):
                return None
            n = tr.bindname()
            return s0 + [f"Py.bind (Py.pairwiseNorm norm {a[1]} {c}) fun {n} =>"], n, t
    # P[:, c]
    if (isinstance(e, ast.Subscript) and isinstance(e.slice, ast.Tuple) and len(e.slice.elts) == 2 and is_full_slice(e.slice.elts[0])
            and isinstance(e.slice.elts[1], ast.Constant) and isinstance(e.slice.elts[1].value, int)
            and not isinstance(e.slice.elts[1].value, bool)):
        s0, c, t = tr.tr(e.value)
        if _mf_is2(t):
            n = tr.bindname()
            return s0 + [f"Py.bind (Py.column {c} ({e.slice.elts[1].value} : Int)) fun {n} =>"], n, t[1]
        return None
    return None


def _mf_stmt(tr, s):
    if not (isinstance(s, ast.Assign) and len(s.targets) == 1):
        return None
    tgt, val = s.targets[0], s.value
    cols = _mf_table(tr, tgt)
    # D = {names.<col>: e, …}
    if cols is not None and isinstance(val, ast.Dict):
        new = []
        for k, x in zip(val.keys, val.values):
            col = _mf_names_col(tr, k, cols)
            if col is None:
                return None
            a = ast.Assign([ast.Name(col, ast.Store())], x)
            ast.copy_location(a, s); ast.fix_missing_locations(a)
            new.append(a)
        if sorted(ast.unparse(a.targets[0]) for a in new) != sorted(cols.values()):
            raise Untranslatable(f"{tr.spec.lean}: `{ast.unparse(tgt)} = {{…}}` does not give every modelled column exactly once")
        return tr.block(new)
    # X = pd.DataFrame.from_dict(D) / X = Tree.from_data_frame(D, names=names): the same column variables
    if cols is not None and isinstance(val, ast.Call) and len(val.args) == 1:
        f = ast.unparse(val.func)
        kws = {k.arg: ast.unparse(k.value) for k in val.keywords}
        src = _mf_table(tr, val.args[0])
        if src is not None and src == cols and ((f == "pd.DataFrame.from_dict" and not kws) or (f == "Tree.from_data_frame" and kws == {"names": "names"})):
            return "Py.skip"
        return None
    # D[names.<col>][i] = e
    if isinstance(tgt, ast.Subscript) and isinstance(tgt.value, ast.Subscript):
        cols = _mf_table(tr, tgt.value.value)
        if cols is None:
            return None
        col = _mf_names_col(tr, tgt.value.slice, cols)
        if col is None:
            return None
        a = ast.Assign([ast.Subscript(ast.Name(col, ast.Load()), tgt.slice, ast.Store())], val)
        ast.copy_location(a, s); ast.fix_missing_locations(a)
        return tr.s_Assign(a)
    return None


EXPR_HOOKS.append(_mf_expr)
STMT_HOOKS.append(_mf_stmt)

_MF_FIRST = ("if names is None:\n    names = self.names\nelse:\n    warnings.warn('`PointsToCuntzMST(...)(names=...)` has been replaced by "
             "`PointsToCuntzMST(...,names=...)` since v0.12.0, and will be removed in next version', DeprecationWarning)\n"
             "    names = get_names(names)")
_MF_COLS = {"id": "ids", "type": "types", "x": "xs", "y": "ys", "z": "zs", "r": "rs", "pid": "pid"}
spec(lean="mst_call", module="AlgoMstFront", file="swcgeom/transforms/mst.py", cls="PointsToCuntzMST", func="__call__",
     seg_from=_MF_FIRST, seg_to="t = Tree.from_data_frame(df, names=names)",
     params=["points", "soma", "bf", "limit", "exclude_soma", "t_glia", "t_soma"], num_tparams=["K"], fparams=["(norm : List K → K)"],
     absent=["names"], skip_stmts=["names = self.names"],
     vars={"points": "List (List K)", "soma": "Option (List K)", "bf": "K", "limit": "Int", "exclude_soma": "Bool", "t_glia": "Int", "t_soma": "Int",
           "n": "Int", "dis": "List (List K)",
           "pid": "List Int", "acc": "List K", "furcations": "List Int", "conn": "List Bool", "mask": "List (List Bool)",
           "cost": "Masked2 K", "i": "Int", "j": "Int",
           "ids": "List Int", "types": "List Int", "xs": "List K", "ys": "List K", "zs": "List K", "rs": "Int"},
     ret="Unit", out=["ids", "types", "xs", "ys", "zs", "rs", "pid", "points", "dis"],
     tree_cols={"dic": _MF_COLS, "df": _MF_COLS, "t": _MF_COLS},
     subst={"self.bf": ("v.bf", "K"), "self.furcations": ("v.limit", "Int"), "self.exclude_soma": ("v.exclude_soma", "Bool"),
            "self.types.glia_processes": ("v.t_glia", "Int"), "self.types.soma": ("v.t_soma", "Int")},
     doc="`swcgeom/transforms/mst.py::PointsToCuntzMST.__call__` from its first statement to `t = Tree.from_data_frame(df, names=names)` "
         "(the table `dic` / `df` / `t` is the column variables `ids, types, xs, ys, zs, rs, pid`; `norm` is the vector norm of "
         "`np.linalg.norm(…, axis=2)`; `self.bf` / `self.furcations` / `self.exclude_soma` / `self.types.glia_processes` / `self.types.soma` are "
         "the parameters `bf` / `limit` / `exclude_soma` / `t_glia` / `t_soma`; the legacy parameter `names` is absent)")
