# C12 (T40 `rodrigues`): the general-axis rotation `rotate3d` (Rodrigues' formula, numpy), `_to_homogeneous`,
# `model_view_transformation` and `orthographic_projection_simple` of swcgeom/utils/transforms.py  ->  Gen/AlgoRodrigues.lean,
# over a numeric type parameter `K`.  Executed in the namespace of harness/translate_algo.py.
#
# New constructs (GENERAL numpy idioms; their meaning is lean/SwcVerif/Model/PyRodrigues.lean), added through the extension hooks:
#   np.identity(k) / np.eye(k)       (float)                      Py.identity k
#   np.array(x, dtype=np.floatNN)    x already a 1-d float array   x       (rounding between float widths is outside: DESIGN §3)
#   a * v, a * m                     scalar times 1-d / 2-d array  Py.smul1 a v / Py.smul2 a m
#   u * n[:, None]                   1-d times a column            Py.mulCol u n      (entry (i, j) = u[j] * n[i])
#   a + b                            2-d arrays of one shape       Py.add2 a b        (shape mismatch raises)
#   v / r                            1-d array by a scalar         Py.divS v r        (zero divisor raises)
#   a, b, c = v                      v a 1-d array                 `match v with | [a, b, c] => … | _ => raise`
#   T[:r, :c] = B                    2-d arrays, literal r, c      Py.setBlock T r c B
#   np.cross(a, b)                   3-vectors                     Py.cross3 a b      (component formula)
#   [*v, x, …]                       list display with a starred 1-d array   v ++ [x, …]
#   np.array([row, …], dtype=…)      rows 1-d arrays               Py.array2 [row, …] (ragged raises)
#   f(*v)                            v a 1-d array, f a translated function of k scalars   `match v with | [a0, …] => f a0 … | _ => raise`
#   a.shape[0] / a.shape[1]          2-d array                     a.length / Py.ncols a
#   np.concatenate([a, b], axis=1)   2-d arrays                    Py.concatCols a b
# Reused: float literals / int literals in float context, `-x`, `np.dot` (hooks of 16_resample.py, 18_affine.py).
#
# TRUSTED GLUE of this file:
#   * `np.cos(theta)` / `np.sin(theta)` are the parameters `c` / `s` (as in 18_affine.py / Gen/Matrices.lean);
#   * `np.linalg.norm(look_at)` / `np.linalg.norm(up)` are the parameters `ng` / `nt` (the theorems assume `ng² = |look_at|²`, `ng > 0`, same for `nt`);
#   * the array-likes `n`, `position`, `look_at`, `up` are 1-d float arrays (`np.array(·, dtype=…)` of them is the array itself).
MODULE_MODEL_IMPORTS["AlgoRodrigues"] = ["PyResample", "PyNonzero", "PyAffine", "PyRodrigues"]
MODULE_IMPORTS["AlgoRodrigues"] = ["AlgoAffine"]


def _rd_is2(t, tr):
    return isinstance(t, tuple) and t[0] == "List" and isinstance(t[1], tuple) and t[1][0] == "List" and t[1][1] in tr.num


def _rd_is1(t, tr):
    return isinstance(t, tuple) and t[0] == "List" and t[1] in tr.num


def _rd_colnone(e):
    """`x[:, None]` -> x"""
    if (isinstance(e, ast.Subscript) and isinstance(e.slice, ast.Tuple) and len(e.slice.elts) == 2 and is_full_slice(e.slice.elts[0])
            and isinstance(e.slice.elts[1], ast.Constant) and e.slice.elts[1].value is None):
        return e.value
    return None


def _rd_K(tr, want):
    w = want
    while isinstance(w, tuple) and w[0] == "List":
        w = w[1]
    if w in tr.num:
        return w
    return tr.spec.num_tparams[0] if len(tr.spec.num_tparams) == 1 else None


def _rd_expr(tr, e, want):
    # --- an int literal 0 / 1 combined with a float scalar is that float
    if isinstance(e, ast.BinOp) and isinstance(e.op, (ast.Sub, ast.Add, ast.Mult)):
        for lit, oth, left in ((e.left, e.right, True), (e.right, e.left, False)):
            if isinstance(lit, ast.Constant) and type(lit.value) is int and lit.value in (0, 1):
                s0, c, t = tr.tr(oth)
                if t in tr.num:
                    op = {ast.Sub: "-", ast.Add: "+", ast.Mult: "*"}[type(e.op)]
                    l = f"({lit.value} : {t})"
                    return s0, (f"({l} {op} {c})" if left else f"({c} {op} {l})"), t
    if isinstance(e, ast.BinOp) and isinstance(e.op, ast.Mult):
        col = _rd_colnone(e.right)
        if col is not None:
            s0, u, tu = tr.tr(e.left); s1, n, tn = tr.tr(col)
            if _rd_is1(tu, tr) and tn == tu:
                return s0 + s1, f"(Py.mulCol {u} {n})", ("List", tu)
            return None
        s1, b, tb = tr.tr(e.right)
        if _rd_is1(tb, tr) or _rd_is2(tb, tr):
            K = tb[1] if _rd_is1(tb, tr) else tb[1][1]
            s0, a, ta = tr.tr(e.left, K)
            if ta == K:
                return s0 + s1, f"(Py.smul{1 if _rd_is1(tb, tr) else 2} {a} {b})", tb
        return None
    if isinstance(e, ast.BinOp) and isinstance(e.op, ast.Add):
        s0, a, ta = tr.tr(e.left, want)
        if not _rd_is2(ta, tr):
            return None
        s1, b, tb = tr.tr(e.right, ta)
        if tb != ta:
            return None
        n = tr.bindname()
        return s0 + s1 + [f"Py.bind (Py.add2 {a} {b}) fun {n} =>"], n, ta
    if isinstance(e, ast.BinOp) and isinstance(e.op, ast.Div):
        s0, a, ta = tr.tr(e.left, want)
        if not _rd_is1(ta, tr):
            return None
        s1, b, tb = tr.tr(e.right, ta[1])
        if tb != ta[1]:
            return None
        n = tr.bindname()
        return s0 + s1 + [f"Py.bind (Py.divS {a} {b}) fun {n} =>"], n, ta
    if isinstance(e, ast.List) and any(isinstance(x, ast.Starred) for x in e.elts):
        K = _rd_K(tr, want)
        if K is None:
            return None
        steps, parts = [], []
        for x in e.elts:
            if isinstance(x, ast.Starred):
                s0, c, t = tr.tr(x.value, ("List", K))
                if t != ("List", K):
                    return None
                steps += s0; parts.append(c)
            else:
                s0, c, t = tr.tr(x, K)
                if t != K:
                    return None
                steps += s0; parts.append(f"[{c}]")
        return steps, "(" + " ++ ".join(parts) + ")", ("List", K)
    if isinstance(e, ast.Subscript) and isinstance(e.value, ast.Attribute) and e.value.attr == "shape" \
            and isinstance(e.slice, ast.Constant) and e.slice.value in (0, 1):
        s0, a, ta = tr.tr(e.value.value)
        if not _rd_is2(ta, tr):
            return None
        if e.slice.value == 0:
            return s0, f"(({a}).length : Int)", "Int"
        n = tr.bindname()
        return s0 + [f"Py.bind (Py.ncols {a}) fun {n} =>"], n, "Int"
    if not isinstance(e, ast.Call):
        return None
    f = ast.unparse(e.func)
    kw = {k.arg: k.value for k in e.keywords}
    if f in ("np.identity", "np.eye") and len(e.args) == 1 and not kw:
        K = _rd_K(tr, want)
        s0, k, tk = tr.tr(e.args[0])
        if K is None or tk != "Int":
            return None
        n = tr.bindname()
        return s0 + [f"Py.bind (Py.identity {k}) fun {n} =>"], f"({n} : List (List {K}))", ("List", ("List", K))
    if f == "np.array" and len(e.args) == 1 and set(kw) <= {"dtype"} and \
            (not kw or ast.unparse(kw["dtype"]) in ("np.float32", "np.float64")):
        x = e.args[0]
        if isinstance(x, ast.List) and x.elts and all(isinstance(r, ast.List) for r in x.elts) and \
                any(isinstance(y, ast.Starred) for r in x.elts for y in r.elts):
            return _rd_array2(tr, x, want)
        if isinstance(x, ast.Name):
            s0, c, t = tr.tr(x)
            if _rd_is1(t, tr) or _rd_is2(t, tr):
                return s0, c, t
        return None
    if f == "np.cross" and len(e.args) == 2 and not kw:
        s0, a, ta = tr.tr(e.args[0]); s1, b, tb = tr.tr(e.args[1])
        if _rd_is1(ta, tr) and tb == ta:
            n = tr.bindname()
            return s0 + s1 + [f"Py.bind (Py.cross3 {a} {b}) fun {n} =>"], n, ta
        return None
    if f == "np.concatenate" and len(e.args) == 1 and set(kw) == {"axis"} and ast.unparse(kw["axis"]) == "1" \
            and isinstance(e.args[0], ast.List) and len(e.args[0].elts) == 2:
        s0, a, ta = tr.tr(e.args[0].elts[0]); s1, b, tb = tr.tr(e.args[0].elts[1])
        if _rd_is2(ta, tr) and tb == ta:
            n = tr.bindname()
            return s0 + s1 + [f"Py.bind (Py.concatCols {a} {b}) fun {n} =>"], n, ta
        return None
    if len(e.args) == 1 and isinstance(e.args[0], ast.Starred) and not kw and f in CALLEES:
        callee = by_lean_global.get(CALLEES[f]) or next((sp for sp in SPECS if sp.lean == CALLEES[f]), None)
        if callee is None or callee.fparams or callee.fuel:
            return None
        pts = [parse_type(callee.vars[p]) for p in callee.params]
        K = _rd_K(tr, None)
        if K is None or any(pt not in callee.num_tparams for pt in pts):
            return None
        s0, v, tv = tr.tr(e.args[0].value, ("List", K))
        if tv != ("List", K):
            return None
        n = tr.bindname()
        names = [f"a{i}" for i in range(len(pts))]
        m = f"(match {v} with | [{', '.join(names)}] => {callee.lean} {' '.join(names)} | _ => none)"
        rt = parse_type(callee.ret)
        return s0 + [f"Py.bind {m} fun {n} =>"], n, rt
    return None


def _rd_array2(tr, x, want):
    K = _rd_K(tr, want)
    if K is None:
        return None
    steps, rows = [], []
    for r in x.elts:
        s0, c, t = tr.tr(r, ("List", K))
        if t != ("List", K):
            return None
        steps += s0; rows.append(c)
    n = tr.bindname()
    return steps + [f"Py.bind (Py.array2 [{', '.join(rows)}]) fun {n} =>"], n, ("List", ("List", K))


def _rd_stmt(tr, s):
    if not (isinstance(s, ast.Assign) and len(s.targets) == 1):
        return None
    tgt = s.targets[0]
    # --- a, b, c = v   (v a 1-d float array)
    if isinstance(tgt, ast.Tuple) and all(isinstance(x, ast.Name) for x in tgt.elts):
        st, c, t = tr.tr(s.value)
        if not _rd_is1(t, tr):
            return None
        for x in tgt.elts:
            if x.id not in tr.vars:
                tr.vars[x.id] = t[1]
            tr.check_type(x.id, t[1], s)
        names = [f"a{i}" for i in range(len(tgt.elts))]
        ups = ", ".join(f"{lname(x.id)} := {a}" for x, a in zip(tgt.elts, names))
        return tr.chain(st, f"match {c} with | [{', '.join(names)}] => .next {{ v with {ups} }} | _ => .err")
    # --- T[:r, :c] = B
    if (isinstance(tgt, ast.Subscript) and isinstance(tgt.value, ast.Name) and isinstance(tgt.slice, ast.Tuple) and len(tgt.slice.elts) == 2
            and all(isinstance(x, ast.Slice) and x.lower is None and x.step is None and isinstance(x.upper, ast.Constant)
                    and isinstance(x.upper.value, int) and x.upper.value >= 0 for x in tgt.slice.elts)):
        s0, T, tT = tr.tr(tgt.value)
        if s0 or not _rd_is2(tT, tr):
            return None
        s1, B, tB = tr.tr(s.value, tT)
        if tB != tT:
            return None
        r, c = (x.upper.value for x in tgt.slice.elts)
        n = tr.bindname()
        return tr.chain(s1 + [f"Py.bind (Py.setBlock {tr.reread(tgt.value)} {r} {c} {B}) fun {n} =>"], ".next " + tr.lvalue(tgt.value)(n))
    return None


EXPR_HOOKS.append(_rd_expr)
STMT_HOOKS.append(_rd_stmt)

_RD_UT = "swcgeom/utils/transforms.py"
_RD_F = ["(F : Py.Fld K)"]
_RD_M = "List (List K)"
_RD_CS = {"np.cos(theta)": ("v.c", "K"), "np.sin(theta)": ("v.s", "K")}

spec(lean="rd_rotate3d", module="AlgoRodrigues", file=_RD_UT, func="rotate3d", num_tparams=["K"],
     params=["n", "c", "s"], vars={"n": "List K", "c": "K", "s": "K", "nx": "K", "ny": "K", "nz": "K", "N": _RD_M, "T": _RD_M},
     ret=_RD_M, subst=_RD_CS,
     doc="`swcgeom/utils/transforms.py::rotate3d` (Rodrigues; `np.cos(theta)` / `np.sin(theta)` are the parameters `c` / `s`, the axis `n` "
         "is a 1-d float array)")
spec(lean="rd_to_homogeneous2", module="AlgoRodrigues", file=_RD_UT, func="_to_homogeneous", callee=["_to_homogeneous"], num_tparams=["K"],
     params=["xyz", "w"], vars={"xyz": _RD_M, "w": "K", "filled": _RD_M, "xyz4": _RD_M}, ret=_RD_M,
     doc="`swcgeom/utils/transforms.py::_to_homogeneous` (an `(N, 3)` or `(N, 4)` array given by its rows)")
spec(lean="rd_model_view", module="AlgoRodrigues", file=_RD_UT, func="model_view_transformation", num_tparams=["K"], fparams=_RD_F,
     params=["position", "look_at", "up", "ng", "nt"],
     vars={"position": "List K", "look_at": "List K", "up": "List K", "ng": "K", "nt": "K", "e": "List K", "g": "List K", "t": "List K",
           "t_view": _RD_M, "r_view": _RD_M},
     ret=_RD_M, subst={"np.linalg.norm(look_at)": ("v.ng", "K"), "np.linalg.norm(up)": ("v.nt", "K")},
     doc="`swcgeom/utils/transforms.py::model_view_transformation` (`np.linalg.norm(look_at)` / `np.linalg.norm(up)` are the parameters "
         "`ng` / `nt`)")
spec(lean="rd_ortho_simple", module="AlgoRodrigues", file=_RD_UT, func="orthographic_projection_simple", num_tparams=["K"],
     params=[], vars={}, ret=_RD_M, doc="`swcgeom/utils/transforms.py::orthographic_projection_simple`")

share_hooks("AlgoAffine", "AlgoRodrigues")
