# C12 / C03 (T15 `affine`): the CONTROL FLOW of the affine transform classes of swcgeom/transforms/geometry.py, the 4x4 matrix builders of
# swcgeom/utils/transforms.py, `SWCLike.xyz` / `xyzw` (swcgeom/core/swc.py) and `Transforms.__call__` (swcgeom/transforms/base.py)
#   ->  Gen/AlgoAffine.lean, over a numeric type parameter `K` (run at Float by the driver op `gaffine` / `gpipe`).
# Executed in the namespace of harness/translate_algo.py.
#
# New constructs (GENERAL Python / numpy idioms; their meaning is lean/SwcVerif/Model/PyAffine.lean), added through the extension hooks:
#   a.dot(b), np.dot(a, b)   (2-d float arrays)          Py.dot2 a b                 (shape mismatch raises)
#   m /= r                   (2-d float array, 1-d r)    Py.idivRows m r             (in place; zero divisor raises)
#   np.ones_like(a)          (1-d float array)           Py.onesLike a
#   -x                       (float scalar)              Py.fneg x  (= 0 - x)
#   g(x)   where `g` is a VARIABLE holding a function    application: a value of type `Fun A B` is a pure function `A → Option B`
#                                                        (`none` = it raised)
#   a call that the spec's `call_alias` maps to a translated METHOD whose receiver's data are explicit parameters (a static method, a
#   method of an object modelled as column variables, `super().__init__`): positional arguments as listed by the alias, the callee's remaining
#   parameters from the call's keywords (by name), then from `**kw` (a `Dict String String`: String-typed parameters not given otherwise; any
#   other key raises), then from the defaults of the callee's own signature (read from its source); out-parameters of the callee that are not
#   bound to an argument (attributes of the object under construction, modelled as variables `self_*`) are written to the caller's
#   variables of the same name.
# `m.T`, `np.stack(…, axis=1)`, `[e, …]` / int literals in float context: the hooks of 16_resample.py; `np.nonzero(mask)[0]`: 09_branchtree.py.
#
# TRUSTED GLUE of this file (every entry replaces source text by its meaning on the modelled data; a change of the source text makes the key
# miss and the translator FAILS):
#   * a tree `x` IS its seven columns `ids, pids, types : List Int`, `xs, ys, zs, rs : List K`:
#       `x.ndata[x.names.pid]` = `pids`;  `self.x()` / `self.y()` / `self.z()` (in `SWCLike.xyz` / `xyzw`) = `xs` / `ys` / `zs`;
#       `x.xyz()` / `x.xyzw()` = the translated `SWCLike.xyz` / `xyzw` on (xs, ys, zs);
#       `y = x.copy()` = the seven columns `y*` are the seven columns of `x` (stmt_subst); `y.ndata[x.names.x] = e` = `yx = e` (stores, same
#       for y, z); `return y` returns the seven `y*` columns;
#       `self.apply(x, tm)` / `AffineTransform.apply(x, tm)` = the translated `apply` on the seven columns and `tm`;
#   * `self.center` / `self.tm` (in `__call__`) are the parameters `center` / `tm0`; in the constructors the attributes `self.tm`,
#     `self.center` are the out-variables `self_tm`, `self_center` (stores); `super().__init__` is `AffineTransform.__init__`;
#   * `np.cos(theta)` / `np.sin(theta)` are the parameters `c` / `s` (as in Gen/Matrices.lean); `rotate3d_x(theta)` = the translated builder
#     on (c, s) (call_alias); `rotate3d(n, theta)` (Rodrigues, numpy-heavy) is the parameter `rot` — the driver and the theorems instantiate it
#     with `Gen.Mat.rotate3d` of the arithmetic translator;
#   * skipped statements: `super().__init__()`-free bookkeeping that only `extra_repr` reads (`self.tx, self.ty, self.tz = tx, ty, tz`,
#     `self.theta = theta`, `self.n = n`) and `fmt = f"Rotate-…"` (`fmt` is then `some "Rotate"`: it only triggers the deprecation warning);
#   * `**kwargs` holds only String-valued keys (in fact only `center`): `fmt=` / `names=` passed through `**kwargs` are not modelled.
MODULE_MODEL_IMPORTS["AlgoAffine"] = ["PyResample", "PyNonzero", "PyAffine"]

TYPE_HEADS["Fun"] = 2


def _af_show(t):
    if isinstance(t, tuple) and t[0] == "Fun":
        return f"({show_type(t[1])} → Option {show_type(t[2])})"
    return None


SHOW_TYPE_HOOKS.append(_af_show)


def _af_is2(t, tr):
    return isinstance(t, tuple) and t[0] == "List" and isinstance(t[1], tuple) and t[1][0] == "List" and t[1][1] in tr.num


def _af_is1(t, tr):
    return isinstance(t, tuple) and t[0] == "List" and t[1] in tr.num


def _af_static_call(tr, e, f):
    tgt, idxs = tr.spec.call_alias[f]
    callee = by_lean_global.get(CALLEES.get(tgt))
    if callee is None or callee.cls is None or "self" in callee.params or callee.fuel or callee.callbacks:
        return None
    if callee.fparams and callee.fparams != tr.spec.fparams:
        raise Untranslatable(f"{tr.spec.lean}: call of {callee.lean} with different function parameters")
    if callee.num_tparams != tr.spec.num_tparams and callee.num_tparams:
        raise Untranslatable(f"{tr.spec.lean}: call of {callee.lean} with different type parameters")
    kws = {k.arg: k.value for k in e.keywords if k.arg is not None}
    star = [k.value for k in e.keywords if k.arg is None]
    if len(star) > 1 or (star and not (isinstance(star[0], ast.Name) and tr.vars.get(star[0].id) == ("Dict", "String", "String"))):
        raise Untranslatable(f"{tr.spec.lean}: `**` argument of `{ast.unparse(e)}`")
    if len(idxs) > len(callee.params):
        raise Untranslatable(f"{tr.spec.lean}: alias of `{f}` gives too many arguments")
    steps, codes, given = [], [], {}
    for pn, i in zip(callee.params, idxs):
        x = e.args[i] if isinstance(i, int) else ast.parse(i, mode="eval").body
        pt = parse_type(callee.vars[pn])
        s0, c, t = tr.tr(x, pt)
        if t != pt:
            s0, c = tr.coerce2(s0, c, t, pt)
        steps += s0; codes.append(c); given[pn] = x
    rest = callee.params[len(idxs):]
    if any(k not in rest for k in kws):
        raise Untranslatable(f"{tr.spec.lean}: keyword of `{ast.unparse(e)}` is not a parameter of {callee.lean}")
    dflt = fn_defaults(callee)
    allowed = []
    for pn in rest:
        pt = parse_type(callee.vars[pn])
        if pn in kws:
            s0, c, t = tr.tr(kws[pn], pt)
            if t != pt:
                s0, c = tr.coerce2(s0, c, t, pt)
            steps += s0; codes.append(c); given[pn] = kws[pn]
            continue
        if pn not in dflt:
            raise Untranslatable(f"{tr.spec.lean}: `{ast.unparse(e)}` gives no value for `{pn}`")
        s0, c, t = tr.tr(dflt[pn], pt)
        if t != pt:
            s0, c = tr.coerce2(s0, c, t, pt)
        if s0:
            raise Untranslatable(f"{tr.spec.lean}: default of `{pn}`")
        if star and pt == "String":
            allowed.append(pn)
            c = f"(Py.Dict.getD v.{lname(star[0].id)} {json.dumps(pn)} {c})"
        codes.append(c)
    if star:
        n0 = tr.bindname()
        steps.append(f"Py.bind (Py.kwOnly v.{lname(star[0].id)} [{', '.join(json.dumps(a) for a in allowed)}]) fun {n0} =>")
    outs = []
    for o in callee.out:
        x = given.get(o)
        if isinstance(x, ast.Name) and x.id in tr.vars:
            outs.append(lname(x.id))
        elif x is None and o in tr.vars and tr.vars[o] == parse_type(callee.vars[o]):
            outs.append(lname(o))
        else:
            raise Untranslatable(f"{tr.spec.lean}: out-parameter `{o}` of {callee.lean} is not bound to a variable")
    n = tr.bindname()
    call = f"{callee.lean} {tr.bargs_nofuel if callee.fparams else ''} {' '.join(codes)}".replace("  ", " ")
    if outs:
        k = len(outs) + 1
        back = ", ".join(f"{o} := {proj(n, j, k)}" for j, o in enumerate(outs))
        steps.append(f"Py.bind ({call}) fun {n} => let v := {{ v with {back} }};")
        return steps, proj(n, k - 1, k), parse_type(callee.ret)
    steps.append(f"Py.bind ({call}) fun {n} =>")
    return steps, n, parse_type(callee.ret)


def _af_expr(tr, e, want):
    # --- -x on a float scalar
    if isinstance(e, ast.UnaryOp) and isinstance(e.op, ast.USub):
        s0, c, t = tr.tr(e.operand, want)
        if t in tr.num:
            return s0, f"(Py.fneg {c})", t
        return None
    if not isinstance(e, ast.Call):
        return None
    f = ast.unparse(e.func)
    if f in tr.spec.call_alias:
        return _af_static_call(tr, e, f)
    # --- a variable holding a function, called
    if isinstance(e.func, ast.Name) and not e.keywords:
        t = tr.vars.get(e.func.id)
        if isinstance(t, tuple) and t[0] == "Fun" and len(e.args) == 1:
            s0, c, ta = tr.tr(e.args[0], t[1])
            if ta != t[1]:
                return None
            n = tr.bindname()
            return s0 + [f"Py.bind (v.{lname(e.func.id)} {c}) fun {n} =>"], n, t[2]
        return None
    # --- a.dot(b) / np.dot(a, b)
    pair = None
    if isinstance(e.func, ast.Attribute) and e.func.attr == "dot" and len(e.args) == 1 and not e.keywords and f != "np.dot":
        pair = (e.func.value, e.args[0])
    elif f == "np.dot" and len(e.args) == 2 and not e.keywords:
        pair = (e.args[0], e.args[1])
    if pair is not None:
        s0, a, ta = tr.tr(pair[0]); s1, b, tb = tr.tr(pair[1])
        if _af_is2(ta, tr) and tb == ta:
            n = tr.bindname()
            return s0 + s1 + [f"Py.bind (Py.dot2 {a} {b}) fun {n} =>"], n, ta
        return None
    if f == "np.ones_like" and len(e.args) == 1 and not e.keywords:
        s0, a, ta = tr.tr(e.args[0])
        if _af_is1(ta, tr):
            return s0, f"(Py.onesLike {a})", ta
        return None
    return None


def _af_stmt(tr, s):
    # --- m /= r  (2-d float array, in place)
    if isinstance(s, ast.AugAssign) and isinstance(s.op, ast.Div) and isinstance(s.target, ast.Name):
        s0, m, tm = tr.tr(s.target)
        if s0 or not _af_is2(tm, tr):
            return None
        s1, r, t1 = tr.tr(s.value)
        if t1 != tm[1]:
            return None
        n = tr.bindname()
        return tr.chain(s1 + [f"Py.bind (Py.idivRows {tr.reread(s.target)} {r}) fun {n} =>"], ".next " + tr.lvalue(s.target)(n))
    return None


EXPR_HOOKS.append(_af_expr)
STMT_HOOKS.append(_af_stmt)

_AF_GEO = "swcgeom/transforms/geometry.py"
_AF_UT = "swcgeom/utils/transforms.py"
_AF_F = ["(F : Py.Fld K)"]
_AF_M = "List (List K)"
_AF_TREE = "(List Int) × (List Int) × (List Int) × (List K) × (List K) × (List K) × (List K)"
_AF_COLS = {"ids": "List Int", "pids": "List Int", "types": "List Int", "xs": "List K", "ys": "List K", "zs": "List K", "rs": "List K"}
_AF_COLN = list(_AF_COLS)
_AF_CS = {"np.cos(theta)": ("v.c", "K"), "np.sin(theta)": ("v.s", "K")}

# ---- the matrix builders (swcgeom/utils/transforms.py)
spec(lean="af_translate3d", module="AlgoAffine", file=_AF_UT, func="translate3d", callee=["translate3d"], num_tparams=["K"],
     params=["tx", "ty", "tz"], vars={"tx": "K", "ty": "K", "tz": "K"}, ret=_AF_M)
spec(lean="af_scale3d", module="AlgoAffine", file=_AF_UT, func="scale3d", callee=["scale3d"], num_tparams=["K"],
     params=["sx", "sy", "sz"], vars={"sx": "K", "sy": "K", "sz": "K"}, ret=_AF_M)
for _ax in "xyz":
    spec(lean=f"af_rotate3d_{_ax}", module="AlgoAffine", file=_AF_UT, func=f"rotate3d_{_ax}", callee=[f"rotate3d_{_ax}"], num_tparams=["K"],
         params=["c", "s"], vars={"c": "K", "s": "K"}, ret=_AF_M, subst=_AF_CS,
         doc=f"`swcgeom/utils/transforms.py::rotate3d_{_ax}` (`np.cos(theta)` / `np.sin(theta)` are the parameters `c` / `s`)")

# ---- SWCLike.xyz / xyzw
_AF_XYZ = {"self.x()": ("v.xs", "List K"), "self.y()": ("v.ys", "List K"), "self.z()": ("v.zs", "List K")}
spec(lean="swc_xyz", module="AlgoAffine", file="swcgeom/core/swc.py", cls="SWCLike", func="xyz", callee=["SWCLike.xyz"], num_tparams=["K"],
     params=["xs", "ys", "zs"], vars={"xs": "List K", "ys": "List K", "zs": "List K"}, ret=_AF_M, subst=_AF_XYZ,
     doc="`swcgeom/core/swc.py::SWCLike.xyz` (`self.x()` / `self.y()` / `self.z()` are the columns `xs`, `ys`, `zs`)")
spec(lean="swc_xyzw", module="AlgoAffine", file="swcgeom/core/swc.py", cls="SWCLike", func="xyzw", callee=["SWCLike.xyzw"], num_tparams=["K"],
     params=["xs", "ys", "zs"], vars={"xs": "List K", "ys": "List K", "zs": "List K", "w": "List K"}, ret=_AF_M, subst=_AF_XYZ,
     doc="`swcgeom/core/swc.py::SWCLike.xyzw` (`self.x()` / `self.y()` / `self.z()` are the columns `xs`, `ys`, `zs`)")

# ---- AffineTransform.apply / __call__ / __init__, TranslateOrigin.transform
_AF_XALIAS = {"x.xyz": ("SWCLike.xyz", ["xs", "ys", "zs"]), "x.xyzw": ("SWCLike.xyzw", ["xs", "ys", "zs"]),
              "self.apply": ("AffineTransform.apply", _AF_COLN + [1]), "AffineTransform.apply": ("AffineTransform.apply", _AF_COLN + [1])}
spec(lean="affine_apply", module="AlgoAffine", file=_AF_GEO, cls="AffineTransform", func="apply", callee=["AffineTransform.apply"],
     num_tparams=["K"], fparams=_AF_F, params=_AF_COLN + ["tm"],
     vars=dict(_AF_COLS, tm=_AF_M, xyzw=_AF_M, yid="List Int", ypid="List Int", ytype="List Int", yx="List K", yy="List K", yz="List K",
               yr="List K"),
     ret=_AF_TREE, call_alias=_AF_XALIAS,
     stmt_subst={"y = x.copy()": "yid = ids\nypid = pids\nytype = types\nyx = xs\nyy = ys\nyz = zs\nyr = rs"},
     stores={"y.ndata[x.names.x]": "yx", "y.ndata[x.names.y]": "yy", "y.ndata[x.names.z]": "yz"},
     subst={"y": ("(v.yid, v.ypid, v.ytype, v.yx, v.yy, v.yz, v.yr)", _AF_TREE)},
     doc="`swcgeom/transforms/geometry.py::AffineTransform.apply` (the tree `x` is its seven columns, the copy `y` the seven columns `y*`)")
spec(lean="affine_call", module="AlgoAffine", file=_AF_GEO, cls="AffineTransform", func="__call__", callee=["AffineTransform.__call__"],
     num_tparams=["K"], fparams=_AF_F, params=["center", "tm0"] + _AF_COLN,
     vars=dict(_AF_COLS, center="String", tm0=_AF_M, idx="Int", xyz="List K", tm=_AF_M),
     ret=_AF_TREE, call_alias=_AF_XALIAS,
     subst={"self.center": ("v.center", "String"), "self.tm": ("v.tm0", _AF_M), "x.ndata[x.names.pid]": ("v.pids", "List Int")},
     doc="`swcgeom/transforms/geometry.py::AffineTransform.__call__` (`self.center` / `self.tm` are the parameters `center` / `tm0`, the tree "
         "`x` is its seven columns)")
spec(lean="translate_origin", module="AlgoAffine", file=_AF_GEO, cls="TranslateOrigin", func="transform", callee=["TranslateOrigin.transform"],
     num_tparams=["K"], fparams=_AF_F, params=_AF_COLN,
     vars=dict(_AF_COLS, pid="Int", xyzw=_AF_M, tm=_AF_M),
     ret=_AF_TREE, call_alias=_AF_XALIAS, subst={"x.ndata[x.names.pid]": ("v.pids", "List Int")},
     doc="`swcgeom/transforms/geometry.py::TranslateOrigin.transform` (the tree `x` is its seven columns)")

_AF_SELF = {"self.tm": "self_tm", "self.center": "self_center"}
_AF_OUT = ["self_tm", "self_center", "warnings_"]
_AF_OV = {"self_tm": _AF_M, "self_center": "String", "warnings_": "List Int"}
_AF_SUPER = {"super().__init__": ("AffineTransform.__init__", [0])}
spec(lean="affine_init", module="AlgoAffine", file=_AF_GEO, cls="AffineTransform", func="__init__", callee=["AffineTransform.__init__"],
     num_tparams=["K"], params=["tm", "center", "fmt", "names"],
     vars=dict(_AF_OV, tm=_AF_M, center="String", fmt="Option String", names="Option Unit"),
     ret="Unit", out=_AF_OUT, stores=_AF_SELF, defaults={"center": "'origin'", "fmt": "None", "names": "None"},
     doc="`swcgeom/transforms/geometry.py::AffineTransform.__init__` (the attributes `self.tm`, `self.center` are the out-variables "
         "`self_tm`, `self_center`; the warnings issued are returned as call-site numbers in `warnings_`)")
spec(lean="translate_init", module="AlgoAffine", file=_AF_GEO, cls="Translate", func="__init__", num_tparams=["K"],
     params=["tx", "ty", "tz", "kwargs"], vars=dict(_AF_OV, tx="K", ty="K", tz="K", kwargs="Dict String String"),
     ret="Unit", out=_AF_OUT, call_alias=_AF_SUPER, skip_stmts=["self.tx, self.ty, self.tz = (tx, ty, tz)"],
     doc="`swcgeom/transforms/geometry.py::Translate.__init__` (`**kwargs` is a dictionary of String-valued keywords)")
spec(lean="scale_init", module="AlgoAffine", file=_AF_GEO, cls="Scale", func="__init__", num_tparams=["K"],
     params=["sx", "sy", "sz", "center", "kwargs"],
     vars=dict(_AF_OV, sx="K", sy="K", sz="K", center="String", kwargs="Dict String String"),
     ret="Unit", out=_AF_OUT, call_alias=_AF_SUPER, defaults={"center": "'root'"},
     doc="`swcgeom/transforms/geometry.py::Scale.__init__` (`**kwargs` is a dictionary of String-valued keywords)")
spec(lean="rotate_init", module="AlgoAffine", file=_AF_GEO, cls="Rotate", func="__init__", num_tparams=["K"],
     params=["rot", "center", "kwargs"], vars=dict(_AF_OV, rot=_AF_M, center="String", kwargs="Dict String String"),
     ret="Unit", out=_AF_OUT, call_alias=_AF_SUPER, defaults={"center": "'root'"}, stores=_AF_SELF,
     subst={"rotate3d(n, theta)": ("v.rot", _AF_M), "fmt": ('(some "Rotate")', "Option String")},
     skip_stmts=["fmt = f'Rotate-{n[0]}-{n[1]}-{n[2]}-{theta:.4f}'", "self.n = n", "self.theta = theta"],
     doc="`swcgeom/transforms/geometry.py::Rotate.__init__` (`rotate3d(n, theta)` is the parameter `rot`)")
for _ax in "xyz":
    spec(lean=f"rotate_{_ax}_init", module="AlgoAffine", file=_AF_GEO, cls=f"Rotate{_ax.upper()}", func="__init__", num_tparams=["K"],
         params=["c", "s", "center", "kwargs"], vars=dict(_AF_OV, c="K", s="K", center="String", kwargs="Dict String String"),
         ret="Unit", out=_AF_OUT, defaults={"center": "'root'"}, stores=_AF_SELF, skip_stmts=["self.theta = theta"],
         call_alias=dict(_AF_SUPER, **{f"rotate3d_{_ax}": (f"rotate3d_{_ax}", ["c", "s"])}),
         doc=f"`swcgeom/transforms/geometry.py::Rotate{_ax.upper()}.__init__` (`rotate3d_{_ax}(theta)` is the translated builder on the "
             "parameters `c`, `s` = cos / sin of `theta`)")

# ---- Transforms.__call__ (swcgeom/transforms/base.py): a transform is a function on trees that may raise
spec(lean="transforms_call", module="AlgoAffine", file="swcgeom/transforms/base.py", cls="Transforms", func="__call__", tparams=["X"],
     params=["transforms", "x"], vars={"transforms": "List (Fun X X)", "x": "X", "transform": "Fun X X"}, ret="X",
     subst={"self.transforms": ("v.transforms", "List (Fun X X)")},
     doc="`swcgeom/transforms/base.py::Transforms.__call__` (`self.transforms` is the parameter `transforms`: a list of functions on trees)")

share_hooks("AlgoResample", "AlgoAffine")
share_hooks("AlgoBranchTree", "AlgoAffine")
