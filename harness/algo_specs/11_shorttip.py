# C06 (T23 `shorttip`): transforms/tree.py::CutShortTipBranch._leave / __call__  ->  Gen/AlgoShortTip.lean
MODULE_IMPORTS["AlgoShortTip"] = ["AlgoCut"]
MODULE_MODEL_IMPORTS["AlgoShortTip"] = ["PyShortTip"]

_ST_TT = "swcgeom/transforms/tree.py"
_ST_RES = "((List Int) × (List Int)) × (List Int)"


# --- a LIST OF CALLBACKS held in an attribute (`self.callbacks`): a pure parameter `callbacks : List (σ → A → Option σ)` of state-passing callables
# (`none` = the callable raised) over the callbacks' common state `v.cbs`; `for cb in <list>: cb(arg)` calls every one of them, in list order, with
# the same argument and stops at the first that raises (Py.callAll).
# Declared by `callbacks={"<source text of the list>": ("(callbacks : List (σ → A → Option σ))", 1, "Unit")}`.
def _cblist_for(tr, s):
    if not isinstance(s, ast.For) or s.orelse or not isinstance(s.target, ast.Name):
        return None
    key = ast.unparse(s.iter)
    if key not in tr.spec.callbacks or not tr.spec.callbacks[key][0].split(":")[1].strip().startswith("List"):
        return None
    cb = s.target.id
    if not (len(s.body) == 1 and isinstance(s.body[0], ast.Expr) and isinstance(s.body[0].value, ast.Call)
            and isinstance(s.body[0].value.func, ast.Name) and s.body[0].value.func.id == cb
            and len(s.body[0].value.args) == 1 and not s.body[0].value.keywords):
        raise Untranslatable(f"{tr.spec.lean}: loop over the callback list `{key}` whose body is not the call `{cb}(arg)`")
    arg = s.body[0].value.args[0]
    if any(isinstance(n, ast.Name) and n.id == cb for n in ast.walk(arg)):
        raise Untranslatable(f"{tr.spec.lean}: the argument of `{cb}(...)` mentions the callback")
    steps, code, _ = tr.tr(arg)
    lean_cb = tr.spec.callbacks[key][0].split()[0].strip("(")
    n = tr.bindname()
    return tr.chain(steps + [f"Py.bind (Py.callAll {lean_cb} v.cbs {code}) fun {n} =>"], f".next {{ v with cbs := {n} }}")


STMT_HOOKS.append(_cblist_for)


# --- `a, b = e` where `e : Optional[tuple]` (the source has just tested `e is not None`): unpacking None raises (TypeError), otherwise the components
# are assigned; a component assigned to a variable declared `Option T` is wrapped (`some`)
def _unpack_optional(tr, s):
    if not (isinstance(s, ast.Assign) and len(s.targets) == 1 and isinstance(s.targets[0], ast.Tuple)
            and all(isinstance(x, ast.Name) for x in s.targets[0].elts)):
        return None
    st, c, t = tr.tr(s.value)
    if not (isinstance(t, tuple) and t[0] == "Option" and isinstance(t[1], tuple) and t[1][0] == "Prod"):
        return None
    elts = s.targets[0].elts
    parts = prod_parts(t[1], len(elts))
    n = tr.bindname()
    ups = []
    for k, (x, pt) in enumerate(zip(elts, parts)):
        if x.id not in tr.vars:
            tr.vars[x.id] = pt
        ups.append(f"{lname(x.id)} := {tr.coerce(proj(n, k, len(elts)), pt, tr.var_type(x.id))}")
        if tr.var_type(x.id) not in (pt, ("Option", pt)):
            raise Untranslatable(f"{tr.spec.lean}: `{x.id}` is declared {tr.var_type(x.id)} but assigned {pt}")
    return tr.chain(st + [f"Py.bind ({c}) fun {n} =>"], f".next {{ v with {', '.join(ups)} }}")


STMT_HOOKS.append(_unpack_optional)


# --- the int literals 0 / 1 where a value of a NUMERIC type parameter is expected (`return 0, n` in a function returning `tuple[float, Node]`): the
# literal of that type; a tuple where an `Optional[tuple]` is expected: `some` of the tuple
def _num_literal(tr, e, want):
    if (isinstance(e, ast.Constant) and type(e.value) is int and e.value in (0, 1) and want in tr.num):
        return [], f"({e.value} : {want})", want
    if isinstance(e, ast.Tuple) and isinstance(want, tuple) and want[0] == "Option" and isinstance(want[1], tuple) and want[1][0] == "Prod":
        st, c, t = tr.tr(e, want[1])
        if t == want[1]:
            return st, f"(some {c})", want
    return None


EXPR_HOOKS.append(_num_literal)

_ST_CBS = {"self.callbacks": ("(callbacks : List (σ → List Int → Option σ))", 1, "Unit")}
_ST_NODE = "Node@n.attach"
spec(lean="tip_leave", module="AlgoShortTip", file=_ST_TT, cls="CutShortTipBranch", func="_leave",
     params=["ids", "pids", "thre", "n", "children"], tparams=["σ"], num_tparams=["K"], callbacks=_ST_CBS,
     fparams=["(dist : Int → Int → K)"], tree_cols={"n.attach": {"id": "ids", "pid": "pids"}},
     vars={"ids": "List Int", "pids": "List Int", "thre": "K", "n": _ST_NODE, "children": f"List (Option (K × {_ST_NODE}))",
           "c": f"Option (K × {_ST_NODE})", "dis": "K", "child": f"Option {_ST_NODE}", "path": "List Int", "cc": f"List {_ST_NODE}", "br": "List Int"},
     ret=f"Option (K × {_ST_NODE})", fuel=True,
     subst={"self.thre": ("v.thre", "K"),
            "n.distance(child)": ("(dist v.n tc_)", "K", ["Py.bind (v.child) fun tc_ =>"])},
     doc="`swcgeom/transforms/tree.py::CutShortTipBranch._leave` (`n` is a node handle of the tree with the columns `ids`, `pids`; lengths over the "
         "numeric type `K`; `self.thre` is the parameter `thre`, `n.distance(child)` the pure parameter `dist n child`, `self.callbacks` the list "
         "`callbacks` of state-passing callables; a `Tree.Branch` is the list of its node ids)")


# --- `<callback list>.append(<closure>)` … `T.traverse(leave=self.<method>)` … `<callback list>.pop()`: while the closure is on the list, the callables'
# common state is the pair (state of the callables that were there before, captured variables of the closure): the earlier callables act on the first
# component (Py.liftCbs), the closure on the second (Py.closureCb).  The method handed to the traversal is its translation (declared in
# `closures={"self.<method>": lean name}`); its leading parameters are the caller's variables of the same names, its last two the traversal's
# (node, children); the traversal threads the callables' state.
def _cblist_push_pop(tr, s):
    if not (isinstance(s, ast.Expr) and isinstance(s.value, ast.Call) and isinstance(s.value.func, ast.Attribute) and not s.value.keywords):
        return None
    call = s.value
    key = ast.unparse(call.func.value)
    if key not in tr.spec.callbacks or not tr.spec.callbacks[key][0].split(":")[1].strip().startswith("List"):
        return None
    stack = tr.__dict__.setdefault("cb_pushed", [])
    if call.func.attr == "append" and len(call.args) == 1 and isinstance(call.args[0], ast.Lambda) and "<lambda>" in tr.spec.closures:
        callee = by_lean_global[tr.spec.closures["<lambda>"]]
        if stack or callee.callbacks or callee.fuel or len(callee.params) != 1:
            raise Untranslatable(f"{tr.spec.lean}: `{ast.unparse(s)}`")
        stack.append(callee)
        return "Py.skip"
    if call.func.attr == "pop" and not call.args and stack:
        stack.pop()
        return "Py.skip"
    raise Untranslatable(f"{tr.spec.lean}: `{ast.unparse(s)}` on a callback list")


def _traverse_method(tr, e, want):
    if not (isinstance(e, ast.Call) and isinstance(e.func, ast.Attribute) and e.func.attr == "traverse" and not e.args
            and [k.arg for k in e.keywords] == ["leave"]):
        return None
    T = ast.unparse(e.func.value)
    mkey = ast.unparse(e.keywords[0].value)
    if T not in tr.spec.tree_cols or mkey not in tr.spec.closures or not mkey.startswith("self."):
        return None
    stack = tr.__dict__.get("cb_pushed", [])
    callee = by_lean_global[tr.spec.closures[mkey]]
    cols = tr.spec.tree_cols[T]
    if not tr.spec.fuel or len(stack) != 1 or list(callee.callbacks) != list(tr.spec.callbacks) or callee.tparams != tr.spec.tparams \
            or callee.num_tparams != tr.spec.num_tparams or callee.fparams != tr.spec.fparams or not callee.fuel:
        raise Untranslatable(f"{tr.spec.lean}: `{ast.unparse(e)}`")
    lam = stack[0]
    lead = callee.params[:-2]
    for pn in lead:
        if parse_type(callee.vars[pn]) != tr.var_type(pn):
            raise Untranslatable(f"{tr.spec.lean}: parameter `{pn}` of `{mkey}` is not a variable of the caller of the same type")
    cbname = tr.spec.callbacks[list(tr.spec.callbacks)[0]][0].split()[0].strip("(")
    fps = " ".join(b.split()[0].strip("(") for b in tr.spec.fparams)
    caps = lam.captures
    capst = "(" + ", ".join(f"v.{lname(c)}" for c in caps) + ")"
    cbs2 = f"(Py.liftCbs {cbname} ++ [Py.closureCb {lam.lean}])"
    leave = (f"(Py.wrapL (fun s n ch => {callee.lean} {cbs2} {fps} fuel {' '.join('v.' + lname(p) for p in lead)} n ch s))")
    n = tr.bindname()
    back = " let v := { v with cbs := " + n + ".1.1, " + ", ".join(f"{lname(c)} := {proj(n + '.1.2', k, len(caps))}" for k, c in enumerate(caps)) + " };"
    topo = f"(v.{lname(cols['id'])}, v.{lname(cols['pid'])})"
    step = f"Py.bind (Py.unwrapCb (traverse_dfs (Py.wrapE Py.noEnter) {leave} fuel {topo} (0 : Int) (some (v.cbs, {capst})))) fun {n} =>{back}"
    return [step], f"{n}.2", parse_type(callee.ret)


STMT_HOOKS.append(_cblist_push_pop)
EXPR_HOOKS.append(_traverse_method)

spec(lean="tip_record", module="AlgoShortTip", file=_ST_TT, cls="CutShortTipBranch", func="__call__", nested="<lambda>",
     params=["br"], captures=["removals", "ids"], tree_cols={"x": {"id": "ids"}},
     vars={"br": "List Node@x", "removals": "List Int", "ids": "List Int"}, ret="Unit",
     doc="`swcgeom/transforms/tree.py::CutShortTipBranch.__call__`, the `lambda br: removals.append(br[1].id)` it puts on the callback list (a "
         "`Tree.Branch` is the list of its node handles)")
spec(lean="cut_short_tip", module="AlgoShortTip", file=_ST_TT, cls="CutShortTipBranch", func="__call__",
     params=["ids", "pids", "thre"], tparams=["σ"], num_tparams=["K"], callbacks=_ST_CBS, fparams=["(dist : Int → Int → K)"],
     tree_cols={"x": {"id": "ids", "pid": "pids"}}, closures={"<lambda>": "tip_record", "self._leave": "tip_leave"},
     vars={"ids": "List Int", "pids": "List Int", "thre": "K", "removals": "List Int"}, ret=_ST_RES, fuel=True,
     doc="`swcgeom/transforms/tree.py::CutShortTipBranch.__call__` (the tree is its columns `ids`, `pids`; `callbacks` is `self.callbacks` on entry: "
         "what `__init__` put there; the result stands for the `Tree` built from it)")


# ----------------------------------------------------------------------------------------------------------------------------------------------
# tree_utils_impl.py::to_subtree_impl, tree_utils.py::get_subtree / to_sub_tree: trees AND the `ndata` dictionary as column variables
# (`tree_cols`: the dictionary of per-node arrays of a tree is the tree's columns; the column named `x` of a type parameter stands for every further
# attribute column - the code treats all columns alike)

# --- `X = {k: T.get_ndata(k)[M].copy() for k in T.keys()}`: every column of T gathered by the index array M into the column of X of the same name
def _gather_all_columns(tr, s):
    if not (isinstance(s, ast.Assign) and len(s.targets) == 1 and isinstance(s.targets[0], ast.Name) and isinstance(s.value, ast.DictComp)):
        return None
    X, dc = s.targets[0].id, s.value
    if X not in tr.spec.tree_cols or len(dc.generators) != 1 or dc.generators[0].ifs or not isinstance(dc.generators[0].target, ast.Name):
        return None
    k = dc.generators[0].target.id
    it = dc.generators[0].iter
    if not (isinstance(it, ast.Call) and isinstance(it.func, ast.Attribute) and it.func.attr == "keys" and not it.args and not it.keywords):
        return None
    T = ast.unparse(it.func.value)
    if T not in tr.spec.tree_cols or set(tr.spec.tree_cols[T]) != set(tr.spec.tree_cols[X]) or ast.unparse(dc.key) != k:
        raise Untranslatable(f"{tr.spec.lean}: `{ast.unparse(s)}`: `{T}` and `{X}` must be declared with the same columns")
    val = dc.value
    if (isinstance(val, ast.Call) and isinstance(val.func, ast.Attribute) and val.func.attr == "copy" and not val.args and not val.keywords):
        val = val.func.value                                  # `.copy()` of a freshly gathered array: the same values
    if not (isinstance(val, ast.Subscript) and ast.unparse(val.value) == f"{T}.get_ndata({k})" and isinstance(val.slice, ast.Name)):
        raise Untranslatable(f"{tr.spec.lean}: `{ast.unparse(s)}`")
    M = val.slice.id
    src = "\n".join(f"{tr.spec.tree_cols[X][c]} = {tr.spec.tree_cols[T][c]}[{M}]" for c in tr.spec.tree_cols[T])
    return tr.block(ast.parse(src).body)


# --- `X[T.names.<col>] = e`: the column `<col>` of the dictionary of per-node arrays X is replaced
def _store_named_column(tr, s):
    if not (isinstance(s, ast.Assign) and len(s.targets) == 1 and isinstance(s.targets[0], ast.Subscript) and isinstance(s.targets[0].value, ast.Name)):
        return None
    X, key = s.targets[0].value.id, s.targets[0].slice
    if X not in tr.spec.tree_cols or not (isinstance(key, ast.Attribute) and isinstance(key.value, ast.Attribute) and key.value.attr == "names"
                                           and ast.unparse(key.value.value) in tr.spec.tree_cols):
        return None
    if key.attr not in tr.spec.tree_cols[X]:
        raise Untranslatable(f"{tr.spec.lean}: `{ast.unparse(s)}`: no column `{key.attr}`")
    asg = ast.Assign([ast.Name(tr.spec.tree_cols[X][key.attr], ast.Store())], s.value)
    ast.copy_location(asg, s); ast.fix_missing_locations(asg)
    return tr.stmt(asg)


# --- `if isinstance(p, list): A  elif isinstance(p, dict): B`: a test on the declared type of a variable selects its branch statically (the definition
# is the specialisation of the function to the declared type of `p`; a variable declared `Option T` that is absent - `absent=[..]` - is neither)
def _static_isinstance(tr, s):
    if not isinstance(s, ast.If):
        return None
    t = s.test
    if not (isinstance(t, ast.Call) and ast.unparse(t.func) == "isinstance" and len(t.args) == 2 and isinstance(t.args[0], ast.Name)
            and isinstance(t.args[1], ast.Name) and t.args[1].id in ("list", "dict")):
        return None
    p = t.args[0].id
    if p in tr.spec.absent:
        holds = False
    else:
        ty = tr.var_type(p)
        holds = isinstance(ty, tuple) and ((t.args[1].id == "list" and ty[0] == "List") or (t.args[1].id == "dict" and ty[0] in ("Dict", "DDict")))
    live = s.body if holds else s.orelse
    return tr.block(live) if live else "Py.skip"


# --- `l.clear()` / `l.extend(xs)` on a list variable
def _list_clear_extend(tr, s):
    if not (isinstance(s, ast.Expr) and isinstance(s.value, ast.Call) and isinstance(s.value.func, ast.Attribute)
            and isinstance(s.value.func.value, ast.Name) and not s.value.keywords):
        return None
    l, meth, args = s.value.func.value.id, s.value.func.attr, s.value.args
    if l not in tr.vars or not (isinstance(tr.vars[l], tuple) and tr.vars[l][0] == "List"):
        return None
    if meth == "clear" and not args:
        return tr.chain([], f".next {{ v with {lname(l)} := [] }}")
    if meth == "extend" and len(args) == 1:
        st, c, t = tr.tr(args[0])
        if t == tr.vars[l]:
            return tr.chain(st, f".next {{ v with {lname(l)} := v.{lname(l)} ++ {c} }}")
    return None


# --- a dictionary of per-node arrays that is its column variables, used as a value (returned / passed on): the tuple of its columns
def _columns_value(tr, e, want):
    if isinstance(e, ast.Name) and e.id in tr.spec.tree_cols and e.id not in tr.vars:
        cols = tr.spec.tree_cols[e.id]
        return [], "(" + ", ".join(f"v.{lname(v)}" for v in cols.values()) + ")", prod_of([tr.var_type(v) for v in cols.values()])
    return None


STMT_HOOKS.extend([_gather_all_columns, _store_named_column, _static_isinstance, _list_clear_extend])
EXPR_HOOKS.append(_columns_value)

_SI = "swcgeom/core/tree_utils_impl.py"
_SI_COLS = {"swc_like": {"id": "ids", "pid": "pids", "type": "types", "x": "xs"},
            "ndata": {"id": "nids", "pid": "npids", "type": "ntypes", "x": "nxs"}}
_SI_TREE = "(List Int) × (List Int) × (List Int) × (List A)"
_SI_RET = f"Int × ({_SI_TREE}) × Src × Nm"
_SI_VARS = {"ids": "List Int", "pids": "List Int", "types": "List Int", "xs": "List A", "source": "Src", "names": "Nm",
            "nids": "List Int", "npids": "List Int", "ntypes": "List Int", "nxs": "List A"}
_SI_SUBST = {"swc_like.source": ("v.source", "Src"), "swc_like.names": ("v.names", "Nm")}
spec(lean="to_subtree_impl", module="AlgoShortTip", file=_SI, func="to_subtree_impl",
     params=["ids", "pids", "types", "xs", "source", "names", "sub", "out_mapping"], tparams=["A", "Src", "Nm"], tree_cols=_SI_COLS,
     vars={**_SI_VARS, "sub": "(List Int) × (List Int)", "out_mapping": "List Int", "new_id": "List Int", "new_pid": "List Int",
           "mapping": "List Int", "n_nodes": "Int"},
     ret=_SI_RET, out=["out_mapping", "ids", "pids", "types", "xs"], subst=_SI_SUBST,
     doc="`swcgeom/core/tree_utils_impl.py::to_subtree_impl`, `out_mapping` a list (the tree `swc_like` is its columns `ids`, `pids`, `types` and `xs` - "
         "the latter, over a type parameter, stands for every further attribute column -, its `source` and `names` are opaque values; the returned "
         "`ndata` dictionary is the tuple of its columns; the columns of the input are returned as well: they are unchanged)")


# --- a call `F(T, a, …, kw=…)` of a translated function whose FIRST python parameter is a tree given by its columns and opaque attributes
# (registered in TREE2_CALLEES: python callee text -> lean name): the callee's column parameters are the caller's columns of `T` of the same
# names, its attribute parameters (`subst` of `<tree>.<attr>`) the caller's `T.<attr>`, its other parameters the remaining arguments by position /
# keyword; the variables it returns besides its result (`out`) are written back (columns by column name, others to the keyword's variable)
TREE2_CALLEES = {}


def _tree2_call(tr, e, want):
    if not (isinstance(e, ast.Call) and ast.unparse(e.func) in TREE2_CALLEES and e.args and ast.unparse(e.args[0]) in tr.spec.tree_cols):
        return None
    callee = by_lean_global[TREE2_CALLEES[ast.unparse(e.func)]]
    T = ast.unparse(e.args[0])
    mine = tr.spec.tree_cols[T]
    ctree = next(iter(callee.tree_cols))
    inv = {var: key for key, var in callee.tree_cols[ctree].items()}
    attr = {code[len("v."):]: txt[len(ctree) + 1:] for txt, (code, *_r) in callee.subst.items() if txt.startswith(ctree + ".") and code.startswith("v.")}
    rest, kw = list(e.args[1:]), {k.arg: k.value for k in e.keywords}
    steps, codes, argof = [], [], {}
    for pn in callee.params:
        if pn in inv:
            if inv[pn] not in mine:
                raise Untranslatable(f"{tr.spec.lean}: `{ast.unparse(e)}` needs column `{inv[pn]}`")
            codes.append(f"v.{lname(mine[inv[pn]])}")
        elif pn in attr:
            s0, c, _ = tr.tr(ast.parse(f"{T}.{attr[pn]}", mode="eval").body); steps += s0; codes.append(c)
        else:
            x = rest.pop(0) if rest else kw.pop(pn, None)
            if x is None:
                raise Untranslatable(f"{tr.spec.lean}: `{ast.unparse(e)}` gives no value for `{pn}`")
            s0, c, t = tr.tr(x, self_want(callee, pn))
            s0, c = tr.coerce2(s0, c, t, self_want(callee, pn))
            steps += s0; codes.append(c); argof[pn] = x
    if rest or kw:
        raise Untranslatable(f"{tr.spec.lean}: arguments of `{ast.unparse(e)}`")
    if callee.fuel and not tr.spec.fuel:
        raise Untranslatable(f"{tr.spec.lean} calls {callee.lean} which needs fuel")
    n = tr.bindname()
    k = len(callee.out) + 1
    ups = []
    for j, o in enumerate(callee.out):
        if o in inv:
            ups.append(f"{lname(mine[inv[o]])} := {proj(n, j, k)}")
        elif o in argof and isinstance(argof[o], ast.Name):
            ups.append(f"{lname(argof[o].id)} := {proj(n, j, k)}")
        else:
            raise Untranslatable(f"{tr.spec.lean}: `{ast.unparse(e)}`: the updated `{o}` has no variable to go back to")
    upd = f" let v := {{ v with {', '.join(ups)} }};" if ups else ""
    bargs = " ".join(f"({t} := {t})" for t in callee.tparams if t in tr.spec.tparams)
    return (steps + [f"Py.bind ({callee.lean} {bargs} {'fuel ' if callee.fuel else ''}{' '.join(codes)}) fun {n} =>{upd}"], proj(n, k - 1, k), parse_type(callee.ret))


# --- `n, X, s, m = <call returning (count, columns, source, names)>` with X a dictionary of per-node arrays that is its column variables:
# the components of the columns tuple are assigned to X's column variables
def _assign_columns(tr, s):
    if not (isinstance(s, ast.Assign) and len(s.targets) == 1 and isinstance(s.targets[0], ast.Tuple)
            and all(isinstance(x, ast.Name) for x in s.targets[0].elts) and any(x.id in tr.spec.tree_cols and x.id not in tr.vars for x in s.targets[0].elts)):
        return None
    st, c, t = tr.tr(s.value)
    elts = s.targets[0].elts
    parts = prod_parts(t, len(elts))
    n = tr.bindname()
    ups = []
    for k, (x, pt) in enumerate(zip(elts, parts)):
        if x.id in tr.spec.tree_cols and x.id not in tr.vars:
            cols = list(tr.spec.tree_cols[x.id].values())
            cpts = prod_parts(pt, len(cols))
            for j, (cv, cpt) in enumerate(zip(cols, cpts)):
                if tr.var_type(cv) != cpt:
                    raise Untranslatable(f"{tr.spec.lean}: column `{cv}` is declared {tr.var_type(cv)} but assigned {cpt}")
                ups.append(f"{lname(cv)} := {proj(proj(n, k, len(elts)), j, len(cols))}")
        else:
            if x.id not in tr.vars:
                tr.vars[x.id] = pt
            if tr.var_type(x.id) != pt:
                raise Untranslatable(f"{tr.spec.lean}: `{x.id}` is declared {tr.var_type(x.id)} but assigned {pt}")
            ups.append(f"{lname(x.id)} := {proj(n, k, len(elts))}")
    return tr.chain(st + [f"let {n} := {c};"], f".next {{ v with {', '.join(ups)} }}")


# --- `Tree(n, **X, source=s, names=m)`: the tree built from a dictionary of per-node arrays that is its column variables: (n, columns, s, m)
def _tree_ctor(tr, e, want):
    if not (isinstance(e, ast.Call) and ast.unparse(e.func) == "Tree" and len(e.args) == 1):
        return None
    star = [k.value for k in e.keywords if k.arg is None]
    kw = {k.arg: k.value for k in e.keywords if k.arg is not None}
    if len(star) != 1 or not isinstance(star[0], ast.Name) or star[0].id not in tr.spec.tree_cols or set(kw) != {"source", "names"}:
        return None
    s0, n, tn = tr.tr(e.args[0])
    s1, cols, tc = tr.tr(star[0])
    s2, src, ts = tr.tr(kw["source"])
    s3, nm, tm = tr.tr(kw["names"])
    return s0 + s1 + s2 + s3, f"({n}, {cols}, {src}, {nm})", prod_of([tn, tc, ts, tm])


STMT_HOOKS.append(_assign_columns)
EXPR_HOOKS.extend([_tree2_call, _tree_ctor])
TREE2_CALLEES["to_subtree_impl"] = "to_subtree_impl"
TREE2_CALLEES["get_subtree_impl"] = "get_subtree_impl_tree"

_SI_OUT = ["out_mapping", "ids", "pids", "types", "xs"]
# in the callers the tree's own attributes are the parameters `t_source` / `t_names`; `source` / `names` are the python locals of the same name
_SI_SUBST2 = {"swc_like.source": ("v.t_source", "Src"), "swc_like.names": ("v.t_names", "Nm")}
_SI_VARS2 = {**{k: v for k, v in _SI_VARS.items() if k not in ("source", "names")}, "t_source": "Src", "t_names": "Nm", "source": "Src", "names": "Nm"}
_SI_PARAMS2 = ["ids", "pids", "types", "xs", "t_source", "t_names"]
spec(lean="to_subtree_tree", module="AlgoShortTip", file=_CUT_TU, func="to_subtree",
     params=_SI_PARAMS2 + ["removals", "out_mapping"], tparams=["A", "Src", "Nm"], tree_cols=_SI_COLS,
     vars={**_SI_VARS2, "removals": "List Int", "out_mapping": "List Int", "new_ids": "List Int", "i": "Int", "sub": "(List Int) × (List Int)",
           "n_nodes": "Int"},
     ret=_SI_RET, out=_SI_OUT, subst=_SI_SUBST2, fuel=True,
     doc="`swcgeom/core/tree_utils.py::to_subtree` on ALL columns (calls the translated `to_subtree_impl`; the resulting `Tree` is its node count, "
         "columns, source and names)")
_SI_TCOLS = {"swc_like": {"id": "tids", "pid": "tpids", "type": "ttypes", "x": "txs"}}
_SI_TVARS = {"tids": "List Int", "tpids": "List Int", "ttypes": "List Int", "txs": "List A", "t_source": "Src", "t_names": "Nm"}
_SI_TPARAMS = ["tids", "tpids", "ttypes", "txs", "t_source", "t_names"]
_SI_TOUT = ["out_mapping", "tids", "tpids", "ttypes", "txs"]
spec(lean="get_subtree_impl_tree", module="AlgoShortTip", file=_SI, func="get_subtree_impl",
     params=_SI_TPARAMS + ["n", "out_mapping"], tparams=["A", "Src", "Nm"], tree_cols=_SI_TCOLS,
     vars={**_SI_TVARS, "n": "Int", "out_mapping": "List Int", "ids": "List Int", "topo": "(List Int) × (List Int)", "sub_ids": "List Int",
           "sub_pid": "List Int"},
     ret=_SI_RET, out=_SI_TOUT, subst=_SI_SUBST2, fuel=True, closures={"<lambda>": "subtree_collect"},
     doc="`swcgeom/core/tree_utils_impl.py::get_subtree_impl` on ALL columns (the tree is its columns `tids`, `tpids`, `ttypes`, `txs`; calls the "
         "translated traversal with the collecting lambda and the translated `to_subtree_impl`)")
spec(lean="get_subtree_tree", module="AlgoShortTip", file=_CUT_TU, func="get_subtree",
     params=_SI_TPARAMS + ["n", "out_mapping"], tparams=["A", "Src", "Nm"],
     tree_cols={**_SI_TCOLS, "ndata": _SI_COLS["ndata"]},
     vars={**_SI_TVARS, "n": "Int", "out_mapping": "List Int", "n_nodes": "Int", "source": "Src", "names": "Nm",
           "nids": "List Int", "npids": "List Int", "ntypes": "List Int", "nxs": "List A"},
     ret=_SI_RET, out=_SI_TOUT, subst=_SI_SUBST2, fuel=True,
     doc="`swcgeom/core/tree_utils.py::get_subtree` on ALL columns (the resulting `Tree` is its node count, columns, source and names)")
spec(lean="to_sub_tree", module="AlgoShortTip", file=_CUT_TU, func="to_sub_tree",
     params=_SI_PARAMS2 + ["sub"], tparams=["A", "Src", "Nm"], tree_cols=_SI_COLS,
     vars={**_SI_VARS2, "sub": "(List Int) × (List Int)", "new_id": "List Int", "new_pid": "List Int", "id_map_arr": "List Int", "n_nodes": "Int",
           "subtree": _SI_RET, "id_map": "Dict Int Int", "i": "Int", "idx": "Int"},
     ret=f"({_SI_RET}) × (Dict Int Int)", out=["ids", "pids", "types", "xs"], subst=_SI_SUBST2, fuel=True,
     doc="`swcgeom/core/tree_utils.py::to_sub_tree` (deprecated wrapper) on ALL columns: the resulting `Tree` (node count, columns, source, names) and the "
         "old→new id dictionary")
