# C06 (T23 `shorttip`): transforms/tree.py::CutShortTipBranch._leave / __call__  ->  Gen/AlgoShortTip.lean
MODULE_IMPORTS["AlgoShortTip"] = ["AlgoCut"]
MODULE_MODEL_IMPORTS["AlgoShortTip"] = ["PyShortTip"]

_ST_TT = "swcgeom/transforms/tree.py"
_ST_RES = "((List Int) × (List Int)) × (List Int)"


# --- a LIST OF CALLBACKS held in an attribute (`self.callbacks`): a pure parameter `callbacks : List (σ → A → σ)` of state-passing callables over the
# callbacks' common state `v.cbs`; `for cb in <list>: cb(arg)` calls every one of them, in list order, with the same argument (Py.callAll).
# Declared by `callbacks={"<source text of the list>": ("(callbacks : List (σ → A → σ))", 1, "Unit")}`.
def _cblist_for(tr, s):
    if not isinstance(s, ast.For) or s.orelse or not isinstance(s.target, ast.Name):
        return None
    key = ast.unparse(s.iter)
    if key not in tr.spec.callbacks or not tr.spec.callbacks[key][0].split(":")[1].strip().startswith("List"):
        return None
    cb = s.target.id
    if not (len(s.body) == 1 and isinstance(s.body[0], ast.Expr) and isinstance(s.body[0].value, ast.Call)
            and isinstance(s.body[0].value.func, ast.Name) and s.body[0].value.func.id == cb
            and len(s.body[0].value.args) == 1 and not s.body[0].value.keywords):
        raise Untranslatable(f"{tr.spec.lean}: loop over the callback list `{key}` whose body is not the call `{cb}(arg)`")
    arg = s.body[0].value.args[0]
    if any(isinstance(n, ast.Name) and n.id == cb for n in ast.walk(arg)):
        raise Untranslatable(f"{tr.spec.lean}: the argument of `{cb}(...)` mentions the callback")
    steps, code, _ = tr.tr(arg)
    lean_cb = tr.spec.callbacks[key][0].split()[0].strip("(")
    return tr.chain(steps, f".next {{ v with cbs := Py.callAll {lean_cb} v.cbs {code} }}")


STMT_HOOKS.append(_cblist_for)


# --- `a, b = e` where `e : Optional[tuple]` (the source has just tested `e is not None`): unpacking None raises (TypeError), otherwise the components
# are assigned; a component assigned to a variable declared `Option T` is wrapped (`some`)
def _unpack_optional(tr, s):
    if not (isinstance(s, ast.Assign) and len(s.targets) == 1 and isinstance(s.targets[0], ast.Tuple)
            and all(isinstance(x, ast.Name) for x in s.targets[0].elts)):
        return None
    st, c, t = tr.tr(s.value)
    if not (isinstance(t, tuple) and t[0] == "Option" and isinstance(t[1], tuple) and t[1][0] == "Prod"):
        return None
    elts = s.targets[0].elts
    parts = prod_parts(t[1], len(elts))
    n = tr.bindname()
    ups = []
    for k, (x, pt) in enumerate(zip(elts, parts)):
        if x.id not in tr.vars:
            tr.vars[x.id] = pt
        ups.append(f"{lname(x.id)} := {tr.coerce(proj(n, k, len(elts)), pt, tr.var_type(x.id))}")
        if tr.var_type(x.id) not in (pt, ("Option", pt)):
            raise Untranslatable(f"{tr.spec.lean}: `{x.id}` is declared {tr.var_type(x.id)} but assigned {pt}")
    return tr.chain(st + [f"Py.bind ({c}) fun {n} =>"], f".next {{ v with {', '.join(ups)} }}")


STMT_HOOKS.append(_unpack_optional)


# --- the int literals 0 / 1 where a value of a NUMERIC type parameter is expected (`return 0, n` in a function returning `tuple[float, Node]`): the
# literal of that type; a tuple where an `Optional[tuple]` is expected: `some` of the tuple
def _num_literal(tr, e, want):
    if (isinstance(e, ast.Constant) and type(e.value) is int and e.value in (0, 1) and want in tr.num):
        return [], f"({e.value} : {want})", want
    if isinstance(e, ast.Tuple) and isinstance(want, tuple) and want[0] == "Option" and isinstance(want[1], tuple) and want[1][0] == "Prod":
        st, c, t = tr.tr(e, want[1])
        if t == want[1]:
            return st, f"(some {c})", want
    return None


EXPR_HOOKS.append(_num_literal)

_ST_CBS = {"self.callbacks": ("(callbacks : List (σ → List Int → σ))", 1, "Unit")}
_ST_NODE = "Node@n.attach"
spec(lean="tip_leave", module="AlgoShortTip", file=_ST_TT, cls="CutShortTipBranch", func="_leave",
     params=["ids", "pids", "thre", "n", "children"], tparams=["σ"], num_tparams=["K"], callbacks=_ST_CBS,
     fparams=["(dist : Int → Int → K)"], tree_cols={"n.attach": {"id": "ids", "pid": "pids"}},
     vars={"ids": "List Int", "pids": "List Int", "thre": "K", "n": _ST_NODE, "children": f"List (Option (K × {_ST_NODE}))",
           "c": f"Option (K × {_ST_NODE})", "dis": "K", "child": f"Option {_ST_NODE}", "path": "List Int", "cc": f"List {_ST_NODE}", "br": "List Int"},
     ret=f"Option (K × {_ST_NODE})", fuel=True,
     subst={"self.thre": ("v.thre", "K"),
            "n.distance(child)": ("(dist v.n tc_)", "K", ["Py.bind (v.child) fun tc_ =>"])},
     doc="`swcgeom/transforms/tree.py::CutShortTipBranch._leave` (`n` is a node handle of the tree with the columns `ids`, `pids`; lengths over the "
         "numeric type `K`; `self.thre` is the parameter `thre`, `n.distance(child)` the pure parameter `dist n child`, `self.callbacks` the list "
         "`callbacks` of state-passing callables; a `Tree.Branch` is the list of its node ids)")
