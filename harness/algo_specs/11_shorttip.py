# C06 (T23 `shorttip`): transforms/tree.py::CutShortTipBranch._leave / __call__  ->  Gen/AlgoShortTip.lean
MODULE_IMPORTS["AlgoShortTip"] = ["AlgoCut"]
MODULE_MODEL_IMPORTS["AlgoShortTip"] = ["PyShortTip"]

_ST_TT = "swcgeom/transforms/tree.py"
_ST_RES = "((List Int) × (List Int)) × (List Int)"


# --- a LIST OF CALLBACKS held in an attribute (`self.callbacks`): a pure parameter `callbacks : List (σ → A → Option σ)` of state-passing callables
# (`none` = the callable raised) over the callbacks' common state `v.cbs`; `for cb in <list>: cb(arg)` calls every one of them, in list order, with
# the same argument and stops at the first that raises (Py.callAll).
# Declared by `callbacks={"<source text of the list>": ("(callbacks : List (σ → A → Option σ))", 1, "Unit")}`.
def _cblist_for(tr, s):
    if not isinstance(s, ast.For) or s.orelse or not isinstance(s.target, ast.Name):
        return None
    key = ast.unparse(s.iter)
    if key not in tr.spec.callbacks or not tr.spec.callbacks[key][0].split(":")[1].strip().startswith("List"):
        return None
    cb = s.target.id
    if not (len(s.body) == 1 and isinstance(s.body[0], ast.Expr) and isinstance(s.body[0].value, ast.Call)
            and isinstance(s.body[0].value.func, ast.Name) and s.body[0].value.func.id == cb
            and len(s.body[0].value.args) == 1 and not s.body[0].value.keywords):
        raise Untranslatable(f"{tr.spec.lean}: loop over the callback list `{key}` whose body is not the call `{cb}(arg)`")
    arg = s.body[0].value.args[0]
    if any(isinstance(n, ast.Name) and n.id == cb for n in ast.walk(arg)):
        raise Untranslatable(f"{tr.spec.lean}: the argument of `{cb}(...)` mentions the callback")
    steps, code, _ = tr.tr(arg)
    lean_cb = tr.spec.callbacks[key][0].split()[0].strip("(")
    n = tr.bindname()
    return tr.chain(steps + [f"Py.bind (Py.callAll {lean_cb} v.cbs {code}) fun {n} =>"], f".next {{ v with cbs := {n} }}")


STMT_HOOKS.append(_cblist_for)


# --- `a, b = e` where `e : Optional[tuple]` (the source has just tested `e is not None`): unpacking None raises (TypeError), otherwise the components
# are assigned; a component assigned to a variable declared `Option T` is wrapped (`some`)
def _unpack_optional(tr, s):
    if not (isinstance(s, ast.Assign) and len(s.targets) == 1 and isinstance(s.targets[0], ast.Tuple)
            and all(isinstance(x, ast.Name) for x in s.targets[0].elts)):
        return None
    st, c, t = tr.tr(s.value)
    if not (isinstance(t, tuple) and t[0] == "Option" and isinstance(t[1], tuple) and t[1][0] == "Prod"):
        return None
    elts = s.targets[0].elts
    parts = prod_parts(t[1], len(elts))
    n = tr.bindname()
    ups = []
    for k, (x, pt) in enumerate(zip(elts, parts)):
        if x.id not in tr.vars:
            tr.vars[x.id] = pt
        ups.append(f"{lname(x.id)} := {tr.coerce(proj(n, k, len(elts)), pt, tr.var_type(x.id))}")
        if tr.var_type(x.id) not in (pt, ("Option", pt)):
            raise Untranslatable(f"{tr.spec.lean}: `{x.id}` is declared {tr.var_type(x.id)} but assigned {pt}")
    return tr.chain(st + [f"Py.bind ({c}) fun {n} =>"], f".next {{ v with {', '.join(ups)} }}")


STMT_HOOKS.append(_unpack_optional)


# --- the int literals 0 / 1 where a value of a NUMERIC type parameter is expected (`return 0, n` in a function returning `tuple[float, Node]`): the
# literal of that type; a tuple where an `Optional[tuple]` is expected: `some` of the tuple
def _num_literal(tr, e, want):
    if (isinstance(e, ast.Constant) and type(e.value) is int and e.value in (0, 1) and want in tr.num):
        return [], f"({e.value} : {want})", want
    if isinstance(e, ast.Tuple) and isinstance(want, tuple) and want[0] == "Option" and isinstance(want[1], tuple) and want[1][0] == "Prod":
        st, c, t = tr.tr(e, want[1])
        if t == want[1]:
            return st, f"(some {c})", want
    return None


EXPR_HOOKS.append(_num_literal)

_ST_CBS = {"self.callbacks": ("(callbacks : List (σ → List Int → Option σ))", 1, "Unit")}
_ST_NODE = "Node@n.attach"
spec(lean="tip_leave", module="AlgoShortTip", file=_ST_TT, cls="CutShortTipBranch", func="_leave",
     params=["ids", "pids", "thre", "n", "children"], tparams=["σ"], num_tparams=["K"], callbacks=_ST_CBS,
     fparams=["(dist : Int → Int → K)"], tree_cols={"n.attach": {"id": "ids", "pid": "pids"}},
     vars={"ids": "List Int", "pids": "List Int", "thre": "K", "n": _ST_NODE, "children": f"List (Option (K × {_ST_NODE}))",
           "c": f"Option (K × {_ST_NODE})", "dis": "K", "child": f"Option {_ST_NODE}", "path": "List Int", "cc": f"List {_ST_NODE}", "br": "List Int"},
     ret=f"Option (K × {_ST_NODE})", fuel=True,
     subst={"self.thre": ("v.thre", "K"),
            "n.distance(child)": ("(dist v.n tc_)", "K", ["Py.bind (v.child) fun tc_ =>"])},
     doc="`swcgeom/transforms/tree.py::CutShortTipBranch._leave` (`n` is a node handle of the tree with the columns `ids`, `pids`; lengths over the "
         "numeric type `K`; `self.thre` is the parameter `thre`, `n.distance(child)` the pure parameter `dist n child`, `self.callbacks` the list "
         "`callbacks` of state-passing callables; a `Tree.Branch` is the list of its node ids)")


# --- `<callback list>.append(<closure>)` … `T.traverse(leave=self.<method>)` … `<callback list>.pop()`: while the closure is on the list, the callables'
# common state is the pair (state of the callables that were there before, captured variables of the closure): the earlier callables act on the first
# component (Py.liftCbs), the closure on the second (Py.closureCb).  The method handed to the traversal is its translation (declared in
# `closures={"self.<method>": lean name}`); its leading parameters are the caller's variables of the same names, its last two the traversal's
# (node, children); the traversal threads the callables' state.
def _cblist_push_pop(tr, s):
    if not (isinstance(s, ast.Expr) and isinstance(s.value, ast.Call) and isinstance(s.value.func, ast.Attribute) and not s.value.keywords):
        return None
    call = s.value
    key = ast.unparse(call.func.value)
    if key not in tr.spec.callbacks or not tr.spec.callbacks[key][0].split(":")[1].strip().startswith("List"):
        return None
    stack = tr.__dict__.setdefault("cb_pushed", [])
    if call.func.attr == "append" and len(call.args) == 1 and isinstance(call.args[0], ast.Lambda) and "<lambda>" in tr.spec.closures:
        callee = by_lean_global[tr.spec.closures["<lambda>"]]
        if stack or callee.callbacks or callee.fuel or len(callee.params) != 1:
            raise Untranslatable(f"{tr.spec.lean}: `{ast.unparse(s)}`")
        stack.append(callee)
        return "Py.skip"
    if call.func.attr == "pop" and not call.args and stack:
        stack.pop()
        return "Py.skip"
    raise Untranslatable(f"{tr.spec.lean}: `{ast.unparse(s)}` on a callback list")


def _traverse_method(tr, e, want):
    if not (isinstance(e, ast.Call) and isinstance(e.func, ast.Attribute) and e.func.attr == "traverse" and not e.args
            and [k.arg for k in e.keywords] == ["leave"]):
        return None
    T = ast.unparse(e.func.value)
    mkey = ast.unparse(e.keywords[0].value)
    if T not in tr.spec.tree_cols or mkey not in tr.spec.closures or not mkey.startswith("self."):
        return None
    stack = tr.__dict__.get("cb_pushed", [])
    callee = by_lean_global[tr.spec.closures[mkey]]
    cols = tr.spec.tree_cols[T]
    if not tr.spec.fuel or len(stack) != 1 or list(callee.callbacks) != list(tr.spec.callbacks) or callee.tparams != tr.spec.tparams \
            or callee.num_tparams != tr.spec.num_tparams or callee.fparams != tr.spec.fparams or not callee.fuel:
        raise Untranslatable(f"{tr.spec.lean}: `{ast.unparse(e)}`")
    lam = stack[0]
    lead = callee.params[:-2]
    for pn in lead:
        if parse_type(callee.vars[pn]) != tr.var_type(pn):
            raise Untranslatable(f"{tr.spec.lean}: parameter `{pn}` of `{mkey}` is not a variable of the caller of the same type")
    cbname = tr.spec.callbacks[list(tr.spec.callbacks)[0]][0].split()[0].strip("(")
    fps = " ".join(b.split()[0].strip("(") for b in tr.spec.fparams)
    caps = lam.captures
    capst = "(" + ", ".join(f"v.{lname(c)}" for c in caps) + ")"
    cbs2 = f"(Py.liftCbs {cbname} ++ [Py.closureCb {lam.lean}])"
    leave = (f"(Py.wrapL (fun s n ch => {callee.lean} {cbs2} {fps} fuel {' '.join('v.' + lname(p) for p in lead)} n ch s))")
    n = tr.bindname()
    back = " let v := { v with cbs := " + n + ".1.1, " + ", ".join(f"{lname(c)} := {proj(n + '.1.2', k, len(caps))}" for k, c in enumerate(caps)) + " };"
    topo = f"(v.{lname(cols['id'])}, v.{lname(cols['pid'])})"
    step = f"Py.bind (Py.unwrapCb (traverse_dfs (Py.wrapE Py.noEnter) {leave} fuel {topo} (0 : Int) (some (v.cbs, {capst})))) fun {n} =>{back}"
    return [step], f"{n}.2", parse_type(callee.ret)


STMT_HOOKS.append(_cblist_push_pop)
EXPR_HOOKS.append(_traverse_method)

spec(lean="tip_record", module="AlgoShortTip", file=_ST_TT, cls="CutShortTipBranch", func="__call__", nested="<lambda>",
     params=["br"], captures=["removals", "ids"], tree_cols={"x": {"id": "ids"}},
     vars={"br": "List Node@x", "removals": "List Int", "ids": "List Int"}, ret="Unit",
     doc="`swcgeom/transforms/tree.py::CutShortTipBranch.__call__`, the `lambda br: removals.append(br[1].id)` it puts on the callback list (a "
         "`Tree.Branch` is the list of its node handles)")
spec(lean="cut_short_tip", module="AlgoShortTip", file=_ST_TT, cls="CutShortTipBranch", func="__call__",
     params=["ids", "pids", "thre"], tparams=["σ"], num_tparams=["K"], callbacks=_ST_CBS, fparams=["(dist : Int → Int → K)"],
     tree_cols={"x": {"id": "ids", "pid": "pids"}}, closures={"<lambda>": "tip_record", "self._leave": "tip_leave"},
     vars={"ids": "List Int", "pids": "List Int", "thre": "K", "removals": "List Int"}, ret=_ST_RES, fuel=True,
     doc="`swcgeom/transforms/tree.py::CutShortTipBranch.__call__` (the tree is its columns `ids`, `pids`; `callbacks` is `self.callbacks` on entry: "
         "what `__init__` put there; the result stands for the `Tree` built from it)")
