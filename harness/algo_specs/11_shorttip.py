# C06 (T23 `shorttip`): transforms/tree.py::CutShortTipBranch._leave / __call__  ->  Gen/AlgoShortTip.lean
MODULE_IMPORTS["AlgoShortTip"] = ["AlgoCut"]
MODULE_MODEL_IMPORTS["AlgoShortTip"] = ["PyShortTip"]

_ST_TT = "swcgeom/transforms/tree.py"
_ST_RES = "((List Int) × (List Int)) × (List Int)"


# --- a LIST OF CALLBACKS held in an attribute (`self.callbacks`): a pure parameter `callbacks : List (σ → A → Option σ)` of state-passing callables
# (`none` = the callable raised) over the callbacks' common state `v.cbs`; `for cb in <list>: cb(arg)` calls every one of them, in list order, with
# the same argument and stops at the first that raises (Py.callAll).
# Declared by `callbacks={"<source text of the list>": ("(callbacks : List (σ → A → Option σ))", 1, "Unit")}`.
def _cblist_for(tr, s):
    if not isinstance(s, ast.For) or s.orelse or not isinstance(s.target, ast.Name):
        return None
    key = ast.unparse(s.iter)
    if key not in tr.spec.callbacks or not tr.spec.callbacks[key][0].split(":")[1].strip().startswith("List"):
        return None
    cb = s.target.id
    if not (len(s.body) == 1 and isinstance(s.body[0], ast.Expr) and isinstance(s.body[0].value, ast.Call)
            and isinstance(s.body[0].value.func, ast.Name) and s.body[0].value.func.id == cb
            and len(s.body[0].value.args) == 1 and not s.body[0].value.keywords):
        raise Untranslatable(f"{tr.spec.lean}: loop over the callback list `{key}` whose body is not the call `{cb}(arg)`")
    arg = s.body[0].value.args[0]
    if any(isinstance(n, ast.Name) and n.id == cb for n in ast.walk(arg)):
        raise Untranslatable(f"{tr.spec.lean}: the argument of `{cb}(...)` mentions the callback")
    steps, code, _ = tr.tr(arg)
    lean_cb = tr.spec.callbacks[key][0].split()[0].strip("(")
    n = tr.bindname()
    return tr.chain(steps + [f"Py.bind (Py.callAll {lean_cb} v.cbs {code}) fun {n} =>"], f".next {{ v with cbs := {n} }}")


STMT_HOOKS.append(_cblist_for)


# --- `a, b = e` where `e : Optional[tuple]` (the source has just tested `e is not None`): unpacking None raises (TypeError), otherwise the components
# are assigned; a component assigned to a variable declared `Option T` is wrapped (`some`)
def _unpack_optional(tr, s):
    if not (isinstance(s, ast.Assign) and len(s.targets) == 1 and isinstance(s.targets[0], ast.Tuple)
            and all(isinstance(x, ast.Name) for x in s.targets[0].elts)):
        return None
    st, c, t = tr.tr(s.value)
    if not (isinstance(t, tuple) and t[0] == "Option" and isinstance(t[1], tuple) and t[1][0] == "Prod"):
        return None
    elts = s.targets[0].elts
    parts = prod_parts(t[1], len(elts))
    n = tr.bindname()
    ups = []
    for k, (x, pt) in enumerate(zip(elts, parts)):
        if x.id not in tr.vars:
            tr.vars[x.id] = pt
        ups.append(f"{lname(x.id)} := {tr.coerce(proj(n, k, len(elts)), pt, tr.var_type(x.id))}")
        if tr.var_type(x.id) not in (pt, ("Option", pt)):
            raise Untranslatable(f"{tr.spec.lean}: `{x.id}` is declared {tr.var_type(x.id)} but assigned {pt}")
    return tr.chain(st + [f"Py.bind ({c}) fun {n} =>"], f".next {{ v with {', '.join(ups)} }}")


STMT_HOOKS.append(_unpack_optional)


# --- the int literals 0 / 1 where a value of a NUMERIC type parameter is expected (`return 0, n` in a function returning `tuple[float, Node]`): the
# literal of that type; a tuple where an `Optional[tuple]` is expected: `some` of the tuple
def _num_literal(tr, e, want):
    if (isinstance(e, ast.Constant) and type(e.value) is int and e.value in (0, 1) and want in tr.num):
        return [], f"({e.value} : {want})", want
    if isinstance(e, ast.Tuple) and isinstance(want, tuple) and want[0] == "Option" and isinstance(want[1], tuple) and want[1][0] == "Prod":
        st, c, t = tr.tr(e, want[1])
        if t == want[1]:
            return st, f"(some {c})", want
    return None


EXPR_HOOKS.append(_num_literal)

_ST_CBS = {"self.callbacks": ("(callbacks : List (σ → List Int → Option σ))", 1, "Unit")}
_ST_NODE = "Node@n.attach"
spec(lean="tip_leave", module="AlgoShortTip", file=_ST_TT, cls="CutShortTipBranch", func="_leave",
     params=["ids", "pids", "thre", "n", "children"], tparams=["σ"], num_tparams=["K"], callbacks=_ST_CBS,
     fparams=["(dist : Int → Int → K)"], tree_cols={"n.attach": {"id": "ids", "pid": "pids"}},
     vars={"ids": "List Int", "pids": "List Int", "thre": "K", "n": _ST_NODE, "children": f"List (Option (K × {_ST_NODE}))",
           "c": f"Option (K × {_ST_NODE})", "dis": "K", "child": f"Option {_ST_NODE}", "path": "List Int", "cc": f"List {_ST_NODE}", "br": "List Int"},
     ret=f"Option (K × {_ST_NODE})", fuel=True,
     subst={"self.thre": ("v.thre", "K"),
            "n.distance(child)": ("(dist v.n tc_)", "K", ["Py.bind (v.child) fun tc_ =>"])},
     doc="`swcgeom/transforms/tree.py::CutShortTipBranch._leave` (`n` is a node handle of the tree with the columns `ids`, `pids`; lengths over the "
         "numeric type `K`; `self.thre` is the parameter `thre`, `n.distance(child)` the pure parameter `dist n child`, `self.callbacks` the list "
         "`callbacks` of state-passing callables; a `Tree.Branch` is the list of its node ids)")


# --- `<callback list>.append(<closure>)` … `T.traverse(leave=self.<method>)` … `<callback list>.pop()`: while the closure is on the list, the callables'
# common state is the pair (state of the callables that were there before, captured variables of the closure): the earlier callables act on the first
# component (Py.liftCbs), the closure on the second (Py.closureCb).  The method handed to the traversal is its translation (declared in
# `closures={"self.<method>": lean name}`); its leading parameters are the caller's variables of the same names, its last two the traversal's
# (node, children); the traversal threads the callables' state.
def _cblist_push_pop(tr, s):
    if not (isinstance(s, ast.Expr) and isinstance(s.value, ast.Call) and isinstance(s.value.func, ast.Attribute) and not s.value.keywords):
        return None
    call = s.value
    key = ast.unparse(call.func.value)
    if key not in tr.spec.callbacks or not tr.spec.callbacks[key][0].split(":")[1].strip().startswith("List"):
        return None
    stack = tr.__dict__.setdefault("cb_pushed", [])
    if call.func.attr == "append" and len(call.args) == 1 and isinstance(call.args[0], ast.Lambda) and "<lambda>" in tr.spec.closures:
        callee = by_lean_global[tr.spec.closures["<lambda>"]]
        if stack or callee.callbacks or callee.fuel or len(callee.params) != 1:
            raise Untranslatable(f"{tr.spec.lean}: `{ast.unparse(s)}`")
        stack.append(callee)
        return "Py.skip"
    if call.func.attr == "pop" and not call.args and stack:
        stack.pop()
        return "Py.skip"
    raise Untranslatable(f"{tr.spec.lean}: `{ast.unparse(s)}` on a callback list")


def _traverse_method(tr, e, want):
    if not (isinstance(e, ast.Call) and isinstance(e.func, ast.Attribute) and e.func.attr == "traverse" and not e.args
            and [k.arg for k in e.keywords] == ["leave"]):
        return None
    T = ast.unparse(e.func.value)
    mkey = ast.unparse(e.keywords[0].value)
    if T not in tr.spec.tree_cols or mkey not in tr.spec.closures or not mkey.startswith("self."):
        return None
    stack = tr.__dict__.get("cb_pushed", [])
    callee = by_lean_global[tr.spec.closures[mkey]]
    cols = tr.spec.tree_cols[T]
    if not tr.spec.fuel or len(stack) != 1 or list(callee.callbacks) != list(tr.spec.callbacks) or callee.tparams != tr.spec.tparams \
            or callee.num_tparams != tr.spec.num_tparams or callee.fparams != tr.spec.fparams or not callee.fuel:
        raise Untranslatable(f"{tr.spec.lean}: `{ast.unparse(e)}`")
    lam = stack[0]
    lead = callee.params[:-2]
    for pn in lead:
        if parse_type(callee.vars[pn]) != tr.var_type(pn):
            raise Untranslatable(f"{tr.spec.lean}: parameter `{pn}` of `{mkey}` is not a variable of the caller of the same type")
    cbname = tr.spec.callbacks[list(tr.spec.callbacks)[0]][0].split()[0].strip("(")
    fps = " ".join(b.split()[0].strip("(") for b in tr.spec.fparams)
    caps = lam.captures
    capst = "(" + ", ".join(f"v.{lname(c)}" for c in caps) + ")"
    cbs2 = f"(Py.liftCbs {cbname} ++ [Py.closureCb {lam.lean}])"
    leave = (f"(Py.wrapL (fun s n ch => {callee.lean} {cbs2} {fps} fuel {' '.join('v.' + lname(p) for p in lead)} n ch s))")
    n = tr.bindname()
    back = " let v := { v with cbs := " + n + ".1.1, " + ", ".join(f"{lname(c)} := {proj(n + '.1.2', k, len(caps))}" for k, c in enumerate(caps)) + " };"
    topo = f"(v.{lname(cols['id'])}, v.{lname(cols['pid'])})"
    step = f"Py.bind (Py.unwrapCb (traverse_dfs (Py.wrapE Py.noEnter) {leave} fuel {topo} (0 : Int) (some (v.cbs, {capst})))) fun {n} =>{back}"
    return [step], f"{n}.2", parse_type(callee.ret)


STMT_HOOKS.append(_cblist_push_pop)
EXPR_HOOKS.append(_traverse_method)

spec(lean="tip_record", module="AlgoShortTip", file=_ST_TT, cls="CutShortTipBranch", func="__call__", nested="<lambda>",
     params=["br"], captures=["removals", "ids"], tree_cols={"x": {"id": "ids"}},
     vars={"br": "List Node@x", "removals": "List Int", "ids": "List Int"}, ret="Unit",
     doc="`swcgeom/transforms/tree.py::CutShortTipBranch.__call__`, the `lambda br: removals.append(br[1].id)` it puts on the callback list (a "
         "`Tree.Branch` is the list of its node handles)")
spec(lean="cut_short_tip", module="AlgoShortTip", file=_ST_TT, cls="CutShortTipBranch", func="__call__",
     params=["ids", "pids", "thre"], tparams=["σ"], num_tparams=["K"], callbacks=_ST_CBS, fparams=["(dist : Int → Int → K)"],
     tree_cols={"x": {"id": "ids", "pid": "pids"}}, closures={"<lambda>": "tip_record", "self._leave": "tip_leave"},
     vars={"ids": "List Int", "pids": "List Int", "thre": "K", "removals": "List Int"}, ret=_ST_RES, fuel=True,
     doc="`swcgeom/transforms/tree.py::CutShortTipBranch.__call__` (the tree is its columns `ids`, `pids`; `callbacks` is `self.callbacks` on entry: "
         "what `__init__` put there; the result stands for the `Tree` built from it)")


# ----------------------------------------------------------------------------------------------------------------------------------------------
# tree_utils_impl.py::to_subtree_impl, tree_utils.py::get_subtree / to_sub_tree: trees AND the `ndata` dictionary as column variables
# (`tree_cols`: the dictionary of per-node arrays of a tree is the tree's columns; the column named `x` of a type parameter stands for every further
# attribute column - the code treats all columns alike)

# --- `X = {k: T.get_ndata(k)[M].copy() for k in T.keys()}`: every column of T gathered by the index array M into the column of X of the same name
def _gather_all_columns(tr, s):
    if not (isinstance(s, ast.Assign) and len(s.targets) == 1 and isinstance(s.targets[0], ast.Name) and isinstance(s.value, ast.DictComp)):
        return None
    X, dc = s.targets[0].id, s.value
    if X not in tr.spec.tree_cols or len(dc.generators) != 1 or dc.generators[0].ifs or not isinstance(dc.generators[0].target, ast.Name):
        return None
    k = dc.generators[0].target.id
    it = dc.generators[0].iter
    if not (isinstance(it, ast.Call) and isinstance(it.func, ast.Attribute) and it.func.attr == "keys" and not it.args and not it.keywords):
        return None
    T = ast.unparse(it.func.value)
    if T not in tr.spec.tree_cols or set(tr.spec.tree_cols[T]) != set(tr.spec.tree_cols[X]) or ast.unparse(dc.key) != k:
        raise Untranslatable(f"{tr.spec.lean}: `{ast.unparse(s)}`: `{T}` and `{X}` must be declared with the same columns")
    val = dc.value
    if (isinstance(val, ast.Call) and isinstance(val.func, ast.Attribute) and val.func.attr == "copy" and not val.args and not val.keywords):
        val = val.func.value                                  # `.copy()` of a freshly gathered array: the same values
    if not (isinstance(val, ast.Subscript) and ast.unparse(val.value) == f"{T}.get_ndata({k})" and isinstance(val.slice, ast.Name)):
        raise Untranslatable(f"{tr.spec.lean}: `{ast.unparse(s)}`")
    M = val.slice.id
    src = "\n".join(f"{tr.spec.tree_cols[X][c]} = {tr.spec.tree_cols[T][c]}[{M}]" for c in tr.spec.tree_cols[T])
    return tr.block(ast.parse(src).body)


# --- `X[T.names.<col>] = e`: the column `<col>` of the dictionary of per-node arrays X is replaced
def _store_named_column(tr, s):
    if not (isinstance(s, ast.Assign) and len(s.targets) == 1 and isinstance(s.targets[0], ast.Subscript) and isinstance(s.targets[0].value, ast.Name)):
        return None
    X, key = s.targets[0].value.id, s.targets[0].slice
    if X not in tr.spec.tree_cols or not (isinstance(key, ast.Attribute) and isinstance(key.value, ast.Attribute) and key.value.attr == "names"
                                           and ast.unparse(key.value.value) in tr.spec.tree_cols):
        return None
    if key.attr not in tr.spec.tree_cols[X]:
        raise Untranslatable(f"{tr.spec.lean}: `{ast.unparse(s)}`: no column `{key.attr}`")
    asg = ast.Assign([ast.Name(tr.spec.tree_cols[X][key.attr], ast.Store())], s.value)
    ast.copy_location(asg, s); ast.fix_missing_locations(asg)
    return tr.stmt(asg)


# --- `if isinstance(p, list): A  elif isinstance(p, dict): B`: a test on the declared type of a variable selects its branch statically (the definition
# is the specialisation of the function to the declared type of `p`; a variable declared `Option T` that is absent - `absent=[..]` - is neither)
def _static_isinstance(tr, s):
    if not isinstance(s, ast.If):
        return None
    t = s.test
    if not (isinstance(t, ast.Call) and ast.unparse(t.func) == "isinstance" and len(t.args) == 2 and isinstance(t.args[0], ast.Name)
            and isinstance(t.args[1], ast.Name) and t.args[1].id in ("list", "dict")):
        return None
    p = t.args[0].id
    if p in tr.spec.absent:
        holds = False
    else:
        ty = tr.var_type(p)
        holds = isinstance(ty, tuple) and ((t.args[1].id == "list" and ty[0] == "List") or (t.args[1].id == "dict" and ty[0] in ("Dict", "DDict")))
    live = s.body if holds else s.orelse
    return tr.block(live) if live else "Py.skip"


# --- `l.clear()` / `l.extend(xs)` on a list variable
def _list_clear_extend(tr, s):
    if not (isinstance(s, ast.Expr) and isinstance(s.value, ast.Call) and isinstance(s.value.func, ast.Attribute)
            and isinstance(s.value.func.value, ast.Name) and not s.value.keywords):
        return None
    l, meth, args = s.value.func.value.id, s.value.func.attr, s.value.args
    if l not in tr.vars or not (isinstance(tr.vars[l], tuple) and tr.vars[l][0] == "List"):
        return None
    if meth == "clear" and not args:
        return tr.chain([], f".next {{ v with {lname(l)} := [] }}")
    if meth == "extend" and len(args) == 1:
        st, c, t = tr.tr(args[0])
        if t == tr.vars[l]:
            return tr.chain(st, f".next {{ v with {lname(l)} := v.{lname(l)} ++ {c} }}")
    return None


# --- a dictionary of per-node arrays that is its column variables, used as a value (returned / passed on): the tuple of its columns
def _columns_value(tr, e, want):
    if isinstance(e, ast.Name) and e.id in tr.spec.tree_cols and e.id not in tr.vars:
        cols = tr.spec.tree_cols[e.id]
        return [], "(" + ", ".join(f"v.{lname(v)}" for v in cols.values()) + ")", prod_of([tr.var_type(v) for v in cols.values()])
    return None


STMT_HOOKS.extend([_gather_all_columns, _store_named_column, _static_isinstance, _list_clear_extend])
EXPR_HOOKS.append(_columns_value)

_SI = "swcgeom/core/tree_utils_impl.py"
_SI_COLS = {"swc_like": {"id": "ids", "pid": "pids", "type": "types", "x": "xs"},
            "ndata": {"id": "nids", "pid": "npids", "type": "ntypes", "x": "nxs"}}
_SI_TREE = "(List Int) × (List Int) × (List Int) × (List A)"
_SI_RET = f"Int × ({_SI_TREE}) × Src × Nm"
_SI_VARS = {"ids": "List Int", "pids": "List Int", "types": "List Int", "xs": "List A", "source": "Src", "names": "Nm",
            "nids": "List Int", "npids": "List Int", "ntypes": "List Int", "nxs": "List A"}
_SI_SUBST = {"swc_like.source": ("v.source", "Src"), "swc_like.names": ("v.names", "Nm")}
spec(lean="to_subtree_impl", module="AlgoShortTip", file=_SI, func="to_subtree_impl",
     params=["ids", "pids", "types", "xs", "source", "names", "sub", "out_mapping"], tparams=["A", "Src", "Nm"], tree_cols=_SI_COLS,
     vars={**_SI_VARS, "sub": "(List Int) × (List Int)", "out_mapping": "List Int", "new_id": "List Int", "new_pid": "List Int",
           "mapping": "List Int", "n_nodes": "Int"},
     ret=_SI_RET, out=["out_mapping", "ids", "pids", "types", "xs"], subst=_SI_SUBST,
     doc="`swcgeom/core/tree_utils_impl.py::to_subtree_impl`, `out_mapping` a list (the tree `swc_like` is its columns `ids`, `pids`, `types` and `xs` - "
         "the latter, over a type parameter, stands for every further attribute column -, its `source` and `names` are opaque values; the returned "
         "`ndata` dictionary is the tuple of its columns; the columns of the input are returned as well: they are unchanged)")
