# C14 (T30 `volglue`): the seam between `_get_volume_frustum_cone` (Gen/AlgoVolume.lean, specs in 14_voltrav.py) and the Monte-Carlo-only routine
# (Gen/AlgoVolMC.lean, specs in 14b_volfront.py).  The call `_get_volume_frustum_cone_mc_only(tree)` in the level-10 branch of
# `_get_volume_frustum_cone` is translated by hook F1 of 14b_volfront.py (a call of a translated function with the same pure function parameters,
# the tree handed over as its columns) - no glue entry any more.  This file only lets the hooks of 14b (registered after 14_voltrav.py was read)
# serve the module of 14_voltrav.py as well; a hook's scope is fixed when its file has been executed, hence a separate, later file.
share_hooks("AlgoVolFront", "AlgoVolume")
