share_hooks("AlgoTravFront", "AlgoVolume")      # the constructs of 04_travfront.py (calls of the generated Tree.traverse instantiations, …)
# C14 (T13 `travfront`, part 2): swcgeom/analysis/volume.py::_get_volume_frustum_cone — the `leave` closure handed to `tree.traverse`, its list of
# child results, the accuracy gating, the accumulation into the non-local `volume`  ->  Gen/AlgoVolume.lean
# The primitive volumes are PURE FUNCTION PARAMETERS over the numeric type parameter `K` (what `Gen/VolumeFormulas.lean` computes for them is a
# separate matter): a `VolSphere` of a node is the node (its row index), a `VolFrustumCone` between a node and a child is the pair (node, child).
#
# GENERAL additions (hooks):
#   (V1) a float literal `0.0` / `1.0` where a value of a numeric type parameter is expected;
#   (V2) `sum(xs)` over values of a numeric type parameter: Python's left fold from 0 (`Py.sumNum`);
#   (V3) `nonlocal x` for a captured variable of a closure: no effect of its own (the closure's writes go to its state).
# TRUSTED GLUE (`subst`; every key is the exact source text - if it changes the translator fails):
#   `VolSphere(n.xyz(), n.r)`  -> the node `n`;  `VolFrustumCone(n.xyz(), n.r, c.center, c.radius)` -> the pair `(n, c)`;
#   `sphere.get_volume()` -> volSphere sphere;  `fc.get_volume()` -> volFrustum fc;
#   `sphere.intersect(fc).get_volume()` / `s.intersect(fc).get_volume()` -> volSF sphere fc / volSF s fc;
#   the whole level-5 sum over cone pairs (a Monte-Carlo estimate in the library) -> volPairs sphere cones;
#   (T30: `_get_volume_frustum_cone_mc_only(tree)` at level 10 is NO LONGER glue: it is the call of the generated `get_volume_mc_only` of
#   Gen/AlgoVolMC.lean (specs in 14b_volfront.py, hook F1 there); the sampler of the finished scene `mcScene` is handed through.)
MODULE_IMPORTS["AlgoVolume"] = ["AlgoTravFront", "AlgoVolMC"]
MODULE_MODEL_IMPORTS["AlgoVolume"] = ["PyVolume", "PyVolFront"]


def _h_float_literal(tr, e, want):
    if isinstance(e, ast.Constant) and isinstance(e.value, float) and want in tr.num:
        if e.value in (0.0, 1.0):
            return [], f"({int(e.value)} : {want})", want
        raise Untranslatable(f"{tr.spec.lean}: float literal {e.value!r}")
    return None


def _h_sum_num(tr, e, want):
    if not (isinstance(e, ast.Call) and isinstance(e.func, ast.Name) and e.func.id == "sum" and len(e.args) == 1 and not e.keywords and tr.num):
        return None
    s0, c, t = tr.tr(e.args[0])
    if isinstance(t, tuple) and t[0] == "List" and t[1] in tr.num:
        return s0, f"(Py.sumNum {c})", t[1]
    raise Untranslatable(f"{tr.spec.lean}: `sum` over {t}")


def _h_nonlocal(tr, s):
    if isinstance(s, ast.Nonlocal):
        if tr.spec.nested and all(n in tr.spec.captures for n in s.names):
            return "Py.skip"
        raise Untranslatable(f"{tr.spec.lean}: `{ast.unparse(s)}` of variables that are not captured")
    return None


EXPR_HOOKS.append(_h_float_literal)
EXPR_HOOKS.append(_h_sum_num)
STMT_HOOKS.append(_h_nonlocal)

_VOL = "swcgeom/analysis/volume.py"
_VF = ["(volSphere : Int → K)", "(volFrustum : Int × Int → K)", "(volSF : Int → Int × Int → K)", "(volPairs : Int → List (Int × Int) → K)", "(mcScene : List Py.Shape → K)"]
spec(lean="vol_leave", module="AlgoVolume", file=_VOL, func="_get_volume_frustum_cone", nested="leave", params=["n", "children"],
     num_tparams=["K"], fparams=_VF, captures=["volume", "accuracy"],
     vars={"n": "Int", "children": "List Int", "volume": "K", "accuracy": "Int", "sphere": "Int", "cones": "List (Int × Int)", "v": "K",
           "c": "Int", "fc": "Int × Int", "s": "Int"},
     ret="Int",
     subst={"VolSphere(n.xyz(), n.r)": ("v.n", "Int"),
            "VolFrustumCone(n.xyz(), n.r, c.center, c.radius)": ("(v.n, v.c)", "Int × Int"),
            "sphere.get_volume()": ("(volSphere v.sphere)", "K"),
            "fc.get_volume()": ("(volFrustum v.fc)", "K"),
            "sphere.intersect(fc).get_volume()": ("(volSF v.sphere v.fc)", "K"),
            "s.intersect(fc).get_volume()": ("(volSF v.s v.fc)", "K"),
            "sum((cones[i].intersect(cones[j]).subtract(sphere).get_volume() for i in range(len(cones)) for j in range(i + 1, len(cones))))":
                ("(volPairs v.sphere v.cones)", "K")},
     doc=f"`{_VOL}::_get_volume_frustum_cone`, nested `leave` (a sphere is its node, a frustum the pair (node, child); the primitive volumes are parameters)")
spec(lean="get_volume_frustum_cone", module="AlgoVolume", file=_VOL, func="_get_volume_frustum_cone", params=["ids", "pids", "accuracy"],
     num_tparams=["K"], fparams=_VF, tree_cols={"tree": {"id": "ids", "pid": "pids"}}, closures={"leave": "vol_leave"},
     vars={"ids": "List Int", "pids": "List Int", "accuracy": "Int", "volume": "K"}, ret="K", fuel=True,
     doc=f"`{_VOL}::_get_volume_frustum_cone` (the tree is its columns `ids`, `pids`; `tree.traverse(leave=leave)` is the TRANSLATED `Tree.traverse`)")
FRONT_CALLERS.add("get_volume_frustum_cone")
