# C16: `BranchTreeAssembler.__call__` (swcgeom/transforms/branch_tree.py) at the level of the (id, pid) table it builds, and `Node.detach`.
#
# Data: the branch tree `x` is its two topology columns `ids`, `pids` (a key node `Node@x` is its row index, `n_orig.children()` is the
# translated `Tree.Node.children`) and its dictionary `branches`; a `Branch` is the list of its samples, a sample is an opaque handle
# (`Node@br`, no columns: every (id, pid) a sample has is discarded by `detach`); a DETACHED node is the record `DNode` of the two
# columns that are modelled (the geometric columns are copied verbatim by `detach` and gathered by the final `Tree(...)`).
MODULE_IMPORTS["AlgoAssemble"] = ["SwcVerif.Model.PyObj", "AlgoNode"]
MODULE_STRUCTS["AlgoAssemble"] = ["DNode"]
STRUCTS["DNode"] = {"id": "Int", "pid": "Int"}
STRUCT_CTORS["DNode"] = ("DNode.mk", "DNode")

_BT = "swcgeom/transforms/branch_tree.py"
spec(lean="node_detach", module="AlgoAssemble", file="swcgeom/core/node.py", cls="Node", func="detach", node_method="detach",
     params=["self"], vars={"self": "Node@self.attach", "a_id": "List Int", "a_pid": "List Int"}, ret="DNode",
     tree_cols={"self.attach": {}},
     # the one-row table `attact` is its two modelled columns `a_id`, `a_pid` (one-element arrays)
     stores={"attact.ndata[self.names.id]": "a_id", "attact.ndata[self.names.pid]": "a_pid"},
     # creation of the one-row table from the receiver's row: both modelled columns are overwritten unconditionally by the next two statements
     skip_stmts=["attact = DictSWC(**{k: np.array([self[k]]) for k in self.keys()}, source=self.attach.source, names=self.names)"],
     # `Node(attact, 0)`: the handle of row 0 of the one-row table = the record of its row
     stmt_subst={"return Node(attact, 0)": "return DNode(a_id[0], a_pid[0])"},
     doc="`swcgeom/core/node.py::Node.detach` on the (id, pid) columns: the detached node is the record of its one row")

_SAMPLES = "List Node@br"
spec(lean="bt_assemble", module="AlgoAssemble", file=_BT, cls="BranchTreeAssembler", func="__call__",
     params=["ids", "pids", "branches"],
     vars={"ids": "List Int", "pids": "List Int", "branches": f"Dict Int (List ({_SAMPLES}))",
           "nodes": "List DNode", "stack": "List (Node@x × Int)", "n_orig": "Node@x", "pid_new": "Int", "children": "List Node@x",
           "br": _SAMPLES, "c": "Node@x", "s": "Int", "e": "Option Int", "br_nodes": "List DNode", "i": "Int", "n": "DNode"},
     ret="(List Int) × (List Int)", fuel=True, tparams=["σ"],
     tree_cols={"x": {"id": "ids", "pid": "pids"}, "br": {}},
     callbacks={
         # `self.pair(branches, children)`: any (stateful) function returning a pairing
         "self.pair": ("(pair : σ → List (List Int) → List Int → σ × List ((List Int) × Int))", 2, f"List (({_SAMPLES}) × Node@x)"),
         # the two float tests (pure functions of the immutable geometry of `x` and of the branch): parameters, used by `subst` below
         "<dup_first>": ("(dupFirst : List Int → Int → Bool)", 2, "Bool"),
         "<dup_last>": ("(dupLast : List Int → Int → Bool)", 2, "Bool")},
     subst={"x.soma()": ("(0 : Int)", "Node@x"),
            "x.branches": ("v.branches", f"Dict Int (List ({_SAMPLES}))"),
            "np.linalg.norm(br[0].xyz() - n_orig.xyz()) < self.EPS": ("(dupFirst v.br v.n_orig)", "Bool"),
            "np.linalg.norm(br[-1].xyz() - c.xyz()) < self.EPS": ("(dupLast v.br v.c)", "Bool")},
     stmt_subst={"return Tree(len(nodes), source=x.source, comments=x.comments, names=x.names, "
                 "**{k: np.array([n.__getattribute__(k) for n in nodes]) for k in x.names.cols()})":
                 "return ([n.id for n in nodes], [n.pid for n in nodes])"},
     doc="`swcgeom/transforms/branch_tree.py::BranchTreeAssembler.__call__` at the level of the (id, pid) table it builds")
