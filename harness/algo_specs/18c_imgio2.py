# C20 (T31 `imgio2`): the rest of the image I/O chain  ->  Gen/AlgoImgIo2.lean (arrays `Py.NdArr K` of 18b_imgio.py)
#   swcgeom/transforms/image_stack.py::ToImageStack.__call__            np.stack(list(frames), axis=0)
#   swcgeom/transforms/image_stack.py::ToImageStack.save_tif            the sequence of `tif.write(frame, contiguous=True, photometric=…, metadata={… "axes": "ZXY"})`
#   swcgeom/transforms/image_stack.py::ToImageStack.transform_and_save  the call of the TRANSLATED save_tif
#   swcgeom/transforms/image_stack.py::ToImageStack.transform (frame)   the instantiation voxel : ndarray — `(255 * voxel[..., 0, 0]).astype(np.uint8)` TRANSLATED
#   swcgeom/images/io.py::ImageStack.get_full                           `self[:, :, :, :]` on an NDArrayImageStack (= its array)
#   swcgeom/images/io.py::NrrdImageStack.__init__ / V3dImageStack.__init__ / V3drawImageStack.__init__ / V3dpbdImageStack.__init__
#   swcgeom/images/io.py::GrayImageStack.get_full                       `self.imgs.get_full()[:, :, :, 0]`
#
# New constructs (GENERAL; semantics in lean/SwcVerif/Model/PyImgIo2.lean):
#   (J1) `np.stack(l, axis=0)` on a list of n-d arrays                                  Py.stack0 l            (fallible)
#   (J2) `a[:, …, :, k…]` (full slices, then non-negative int literals) on an n-d array     Py.sliceThenInts a n ks (fallible); `a[..., k…]`: Py.ellipsisThenInts
#   (J3) `with tifffile.TiffWriter(…) as w: body`: the writer is the log `written_ : List (TifWrite K)` of its `write` calls; entering / leaving
#        the block has no other effect on the modelled data
#   (J4) `w.write(frame, contiguous=<bool>, photometric=<str>, resolution=…, metadata={…, "axes": <str>})`: appends the record to `written_`
#        (the `resolution` tag and the other metadata entries are not modelled)
#   (J5) a statement `self.m(…)` calling a translated method whose only effect is the log `written_`: the callee's log is appended
#   (J6) `o.get_full()` on an object modelled by its array (an NDArrayImageStack): the TRANSLATED `NDArrayImageStack.get_full`
#   (J8) `n * a` / `a * n` for an int literal `n` and an n-d array `a`                    Py.mulScalarL (float n) a / Py.mulScalarR a (float n)
#   (J9) `if [not] isinstance(x, np.ndarray):` for a variable typed as an n-d array: decided statically
#   (J10) `self[key]` inside the `__getitem__` being translated (no array to hand the key to): the method calls ITSELF (recursion on the fuel)
#   (J11) `if isinstance(x, (int, float, np.integer, np.floating)):` decided statically by the declared type of `x` (number / list)
#   (J12) `np.array(l, dtype=np.T)` on a list of floats                                  l.map (cast T)
#   (J13) `a.__getitem__(key)`, key an int / fewer ints than axes / a slice / a tuple of slices   Py.ndIndexPrefix / Py.ndSlice (fallible)
#   (J7) `self[k]` inside a method of a class whose `__getitem__` is translated for this key type (declared by `call_alias`-free lookup
#        `<Class>.__getitem__#slices`): here only the all-`:` key on an NDArrayImageStack, i.e. `self.imgs.__getitem__((:, :, :, :))` = (J2)
# TRUSTED GLUE: listed in design_notes/session4/imgio2.md.
MODULE_MODEL_IMPORTS["AlgoImgIo2"] = ["PyResample", "PyRaster", "PyImgIo", "PyViews", "PyImgIo2"]
MODULE_IMPORTS["AlgoImgIo2"] = ["AlgoImgIo", "AlgoRaster"]
share_hooks("AlgoImgIo", "AlgoImgIo2")
share_hooks("AlgoRaster", "AlgoImgIo2")
TYPE_HEADS["TifWrite"] = 1


def _io2_show(t):
    if isinstance(t, tuple) and t[0] == "TifWrite" and len(t) == 2:
        return f"(Py.TifWrite {show_type(t[1])})"
    return None


SHOW_TYPE_HOOKS.append(_io2_show)


def _io2_subscript(tr, e):
    """(J2)"""
    s0, c, t = tr.tr(e.value)
    if not _io_is_arr(t):
        return None
    key = e.slice.elts if isinstance(e.slice, ast.Tuple) else [e.slice]
    ell = len(key) > 0 and isinstance(key[0], ast.Constant) and key[0].value is Ellipsis
    rest = key[1:] if ell else key
    nfull = 0
    while nfull < len(rest) and is_full_slice(rest[nfull]):
        nfull += 1
    ints = rest[nfull:]
    if not all(isinstance(x, ast.Constant) and isinstance(x.value, int) and not isinstance(x.value, bool) and x.value >= 0 for x in ints):
        return None
    if ell and nfull:
        return None
    ks = "[" + ", ".join(str(x.value) for x in ints) + "]"
    n = tr.bindname()
    if ell:
        return s0 + [f"Py.bind (Py.ellipsisThenInts {c} {ks}) fun {n} =>"], n, t
    if not ints and nfull == 0:
        return None
    return s0 + [f"Py.bind (Py.sliceThenInts {c} {nfull} {ks}) fun {n} =>"], n, t


def _io2_expr(tr, e, want):
    # (J8) `n * a` / `a * n` for an int literal `n` and an n-d float array `a`: the scalar is `float(n)`
    if isinstance(e, ast.BinOp) and isinstance(e.op, ast.Mult) and any(b.startswith("(F : Py.Fld") for b in tr.spec.fparams):
        for lit, arr, fn in ((e.left, e.right, "Py.mulScalarL {s} {a}"), (e.right, e.left, "Py.mulScalarR {a} {s}")):
            if isinstance(lit, ast.Constant) and isinstance(lit.value, int) and not isinstance(lit.value, bool):
                s0, c, t = tr.tr(arr)
                if _io_is_arr(t):
                    return s0, "(" + fn.format(s=f"(Py.Fld.ofInt ({lit.value} : Int) : {show_type(t[1])})", a=c) + ")", t
        return None
    # (J1)
    if (isinstance(e, ast.Call) and ast.unparse(e.func) == "np.stack" and len(e.args) == 1 and len(e.keywords) == 1
            and e.keywords[0].arg == "axis" and ast.unparse(e.keywords[0].value) == "0"):
        s0, c, t = tr.tr(e.args[0])
        if isinstance(t, tuple) and t[0] == "List" and _io_is_arr(t[1]):
            n = tr.bindname()
            return s0 + [f"Py.bind (Py.stack0 {c}) fun {n} =>"], n, t[1]
        return None
    # (J6)
    if (isinstance(e, ast.Call) and isinstance(e.func, ast.Attribute) and e.func.attr == "get_full" and not e.args and not e.keywords
            and "ndarray_get_full" in by_lean_global):
        s0, c, t = tr.tr(e.func.value)
        if _io_is_arr(t):
            n = tr.bindname()
            return s0 + [f"Py.bind (ndarray_get_full {c}) fun {n} =>"], n, t
        return None
    if isinstance(e, ast.Subscript) and isinstance(e.ctx, ast.Load):
        # (J7) `self[key]` on an object that is its array `imgs` (NDArrayImageStack.__getitem__ is `self.imgs.__getitem__(key)`)
        if isinstance(e.value, ast.Name) and e.value.id == "self" and "self" not in tr.vars and tr.vars.get("imgs") is not None \
                and _io_is_arr(tr.var_type("imgs")) and "ndarray_getitem" in by_lean_global:
            new = ast.Subscript(ast.Name("imgs", ast.Load()), e.slice, ast.Load())
            ast.copy_location(new, e); ast.fix_missing_locations(new)
            return _io2_subscript(tr, new)
        return _io2_subscript(tr, e)
    return None


def _io2_const(x, ty):
    return isinstance(x, ast.Constant) and isinstance(x.value, ty)


def _io2_stmt(tr, s):
    # (J3)
    if (isinstance(s, ast.With) and len(s.items) == 1 and isinstance(s.items[0].context_expr, ast.Call)
            and ast.unparse(s.items[0].context_expr.func) == "tifffile.TiffWriter" and isinstance(s.items[0].optional_vars, ast.Name)):
        ty = tr.vars.get("written_")
        if not (isinstance(ty, tuple) and ty[0] == "List" and isinstance(ty[1], tuple) and ty[1][0] == "TifWrite"):
            raise Untranslatable(f"{tr.spec.lean}: a TiffWriter needs a declared variable `written_ : List (TifWrite K)`")
        tr._tif_writers = getattr(tr, "_tif_writers", set()) | {s.items[0].optional_vars.id}
        return tr.block(s.body)
    # (J4)
    if (isinstance(s, ast.Expr) and isinstance(s.value, ast.Call) and isinstance(s.value.func, ast.Attribute) and s.value.func.attr == "write"
            and isinstance(s.value.func.value, ast.Name) and s.value.func.value.id in getattr(tr, "_tif_writers", set())):
        c = s.value
        kw = {k.arg: k.value for k in c.keywords}
        if len(c.args) != 1 or None in kw or set(kw) != {"contiguous", "photometric", "resolution", "metadata"}:
            raise Untranslatable(f"{tr.spec.lean}: `{ast.unparse(c)}`: keywords of TiffWriter.write")
        md = kw["metadata"]
        if not (isinstance(md, ast.Dict) and all(_io2_const(k, str) for k in md.keys)):
            raise Untranslatable(f"{tr.spec.lean}: metadata of `{ast.unparse(c)}`")
        ax = [v for k, v in zip(md.keys, md.values) if k.value == "axes"]
        if len(ax) != 1 or not _io2_const(ax[0], str) or not _io2_const(kw["contiguous"], bool) or not _io2_const(kw["photometric"], str):
            raise Untranslatable(f"{tr.spec.lean}: constant keywords of `{ast.unparse(c)}`")
        s0, fc, ft = tr.tr(c.args[0])
        if not _io_is_arr(ft):
            raise Untranslatable(f"{tr.spec.lean}: frame of `{ast.unparse(c)}` : {ft}")
        rec = (f"{{ frame := {fc}, contiguous := {'true' if kw['contiguous'].value else 'false'}, "
               f"photometric := {json.dumps(kw['photometric'].value)}, axes := ({json.dumps(ax[0].value)}).toList }}")
        return tr.chain(s0, f".next {{ v with written_ := v.written_ ++ [{rec}] }}")
    # (J5)
    if (isinstance(s, ast.Expr) and isinstance(s.value, ast.Call) and ast.unparse(s.value.func) in tr.table
            and ast.unparse(s.value.func).startswith("self.") and tr.table[ast.unparse(s.value.func)].out == ["written_"]):
        callee = tr.table[ast.unparse(s.value.func)]
        if s.value.keywords or callee.fuel or callee.callbacks or callee.fparams or tr.vars.get("written_") is None:
            return None
        # the positional arguments that the callee models (by parameter name of the source signature)
        p = REPO / callee.file
        if p not in _AST_CACHE:
            _AST_CACHE[p] = ast.parse(p.read_text())
        fdef = find_def(_AST_CACHE[p], callee.cls, callee.func)
        names = [a.arg for a in fdef.args.args if a.arg != "self"]
        if len(s.value.args) > len(names):
            return None
        given = dict(zip(names, s.value.args))
        steps, codes = [], []
        for pn in callee.params:
            if pn not in given:
                return None
            pt = parse_type(callee.vars[pn])
            s0, c, t = tr.tr(given[pn], pt)
            if t != pt:
                return None
            steps += s0; codes.append(c)
        n = tr.bindname()
        return tr.chain(steps + [f"Py.bind ({' '.join([callee.lean] + codes)}) fun {n} =>"],
                        f".next {{ v with written_ := v.written_ ++ {n}.1 }}")
    return None


def _io2_rec_getitem(tr, e, want):
    """(J10) `self[key]` inside the `__getitem__` being translated, on an object with no modelled array: the method CALLS ITSELF — a recursive
    call (the spec must be a recursion group with fuel)"""
    if (isinstance(e, ast.Subscript) and isinstance(e.ctx, ast.Load) and isinstance(e.value, ast.Name) and e.value.id == "self"
            and "self" not in tr.vars and "imgs" not in tr.vars and tr.spec.func == "__getitem__" and tr.spec.rec_group and tr.spec.fuel
            and len(tr.spec.params) == 1):
        pt = parse_type(tr.spec.vars[tr.spec.params[0]])
        s0, c, t = tr.tr(e.slice, pt)
        if t != pt:
            return None
        n = tr.bindname()
        return s0 + [f"Py.bind ({tr.spec.lean} fuel {c}) fun {n} =>"], n, parse_type(tr.spec.ret)
    return None


def _io2_isinstance_stmt(tr, s):
    """(J9) `if [not] isinstance(x, np.ndarray):` for a variable typed as an n-d array: decided statically"""
    if not isinstance(s, ast.If):
        return None
    test, neg = s.test, False
    if isinstance(test, ast.UnaryOp) and isinstance(test.op, ast.Not):
        test, neg = test.operand, True
    if not (isinstance(test, ast.Call) and ast.unparse(test.func) == "isinstance" and len(test.args) == 2 and not test.keywords
            and isinstance(test.args[0], ast.Name) and test.args[0].id in tr.vars and ast.unparse(test.args[1]) == "np.ndarray"
            and _io_is_arr(tr.var_type(test.args[0].id))):
        return None
    live = s.orelse if neg else s.body
    return tr.block(live) if live else "Py.skip"


_IO2_NUMCLS = {"int", "float", "np.integer", "np.floating"}


def _io2_isinstance_num(tr, s):
    """(J11) `if isinstance(x, (int, float, np.integer, np.floating)):` decided statically: true for a variable that is a number (the numeric type
    parameter), false for a list / array.  A PARAMETER with several typed versions starts as its declared parameter type."""
    if not (isinstance(s, ast.If) and isinstance(s.test, ast.Call) and ast.unparse(s.test.func) == "isinstance" and len(s.test.args) == 2
            and not s.test.keywords and isinstance(s.test.args[0], ast.Name) and isinstance(s.test.args[1], ast.Tuple)
            and {ast.unparse(c) for c in s.test.args[1].elts} == _IO2_NUMCLS):
        return None
    n = s.test.args[0].id
    if n in tr.versions and tr.cur[n] is None and n in tr.spec.params:
        tr.cur[n] = n
    t = tr.var_type(n)
    if t in tr.num:
        known = True
    elif isinstance(t, tuple) and t[0] == "List":
        known = False
    else:
        return None
    live = s.body if known else s.orelse
    return tr.block(live) if live else "Py.skip"


def _io2_np_array(tr, e, want):
    """(J12) `np.array(l, dtype=np.T)` for a list of floats: every entry converted by `cast T` (the function parameter of `astype`)"""
    if (isinstance(e, ast.Call) and ast.unparse(e.func) == "np.array" and len(e.args) == 1 and len(e.keywords) == 1 and e.keywords[0].arg == "dtype"
            and ast.unparse(e.keywords[0].value) in _IO_DTYPES and any(b.startswith("(cast ") for b in tr.spec.fparams)):
        s0, c, t = tr.tr(e.args[0])
        if isinstance(t, tuple) and t[0] == "List" and t[1] in tr.num:
            return s0, f"(({c}).map (cast Py.DType.{_IO_DTYPES[ast.unparse(e.keywords[0].value)]}))", t
    return None


STMT_HOOKS.append(_io2_isinstance_num)
EXPR_HOOKS.append(_io2_np_array)

def _io2_show_slice(t):
    return "Py.Slice" if t == "Slice" else None


SHOW_TYPE_HOOKS.append(_io2_show_slice)


def _io2_getitem_keys(tr, e, want):
    """(J13) `a.__getitem__(key)` on an n-d array for a key that is an int / a tuple of FEWER ints than axes (the sub-array), a slice or a tuple
    of slices — the key forms of `ImageStack.__getitem__` other than the full int tuple of 18b (I13)"""
    if not (isinstance(e, ast.Call) and isinstance(e.func, ast.Attribute) and e.func.attr == "__getitem__" and len(e.args) == 1 and not e.keywords
            and _io_is_arr(want)):
        return None
    s0, c, t = tr.tr(e.func.value)
    if t != want:
        return None
    s1, k, tk = tr.tr(e.args[0])
    parts, tt = [], tk
    while isinstance(tt, tuple) and tt[0] == "Prod":
        parts.append(tt[1]); tt = tt[2]
    parts.append(tt)
    ks = "[" + ", ".join(proj(k, i, len(parts)) if len(parts) > 1 else k for i in range(len(parts))) + "]"
    n = tr.bindname()
    if all(x == "Int" for x in parts):
        return s0 + s1 + [f"Py.bind (Py.ndIndexPrefix {c} {ks}) fun {n} =>"], n, t
    if all(x == "Slice" for x in parts):
        return s0 + s1 + [f"Py.bind (Py.ndSlice {c} {ks}) fun {n} =>"], n, t
    return None


EXPR_HOOKS.append(_io2_getitem_keys)

EXPR_HOOKS.append(_io2_rec_getitem)
STMT_HOOKS.append(_io2_isinstance_stmt)
EXPR_HOOKS.append(_io2_expr)
STMT_HOOKS.append(_io2_stmt)

_IS_FILE = "swcgeom/transforms/image_stack.py"

# Trusted glue: `self.transform(x, verbose=False)` (the generator translated as `raster_transform` / `raster_transform_nd`) is the parameter
# `frames`, the list of what it yields; the composition with the generated `transform` is made in Lean (Props/C20Io2.lean).
spec(lean="tostack_call", module="AlgoImgIo2", file=_IS_FILE, cls="ToImageStack", func="__call__", params=["frames"], num_tparams=["K"],
     vars={"frames": "List (NdArr K)"}, ret="NdArr K",
     subst={"self.transform(x, verbose=False)": ("v.frames", "List (NdArr K)")},
     doc="`swcgeom/transforms/image_stack.py::ToImageStack.__call__` (`self.transform(x, verbose=False)` is the parameter `frames`, the list of "
         "the frames the generator yields; no result = ValueError of `np.stack`)")

# Trusted glue: the file is the log `written_` of the `write` calls (J3, J4); `fname`, `resolution` (the pixel-size tag) are not modelled.
spec(lean="tostack_save_tif", module="AlgoImgIo2", file=_IS_FILE, cls="ToImageStack", func="save_tif", callee=["self.save_tif"],
     params=["frames"], num_tparams=["K"], vars={"frames": "List (NdArr K)", "frame": "NdArr K", "written_": "List (TifWrite K)"},
     ret="Unit", out=["written_"],
     doc="`swcgeom/transforms/image_stack.py::ToImageStack.save_tif`: the log `written_` of the calls `tif.write(frame, contiguous=…, "
         "photometric=…, metadata={…, 'axes': …})` on the `tifffile.TiffWriter` (`fname` and the `resolution` tag are not modelled)")

spec(lean="tostack_transform_and_save", module="AlgoImgIo2", file=_IS_FILE, cls="ToImageStack", func="transform_and_save",
     params=["fname", "frames"], num_tparams=["K"], vars={"fname": "String", "frames": "List (NdArr K)", "written_": "List (TifWrite K)"},
     ret="Unit", out=["written_"],
     subst={"self.transform(x, verbose=verbose, **kwargs)": ("v.frames", "List (NdArr K)")},
     doc="`swcgeom/transforms/image_stack.py::ToImageStack.transform_and_save` (`self.transform(x, verbose=verbose, **kwargs)` is the parameter "
         "`frames`; the call of `save_tif` is the TRANSLATED one)")

_IO2_SUPER = {"super().__init__(imgs, dtype=dtype)": "return NDArrayImageStack_init(imgs, dtype)"}
# Trusted glue: the codec call `nrrd.read` gives the parameter `imgs`; `self.header = header` does not touch the array; the object is its array.
spec(lean="nrrd_init", module="AlgoImgIo2", file=_IO_FILE, cls="NrrdImageStack", func="__init__", params=["imgs", "dtype"], num_tparams=["K"],
     fparams=[_IO_F, _IO_CAST], vars={"imgs": "NdArr K", "dtype": "Option DType"}, ret="NdArr K",
     skip_stmts=["imgs, header = nrrd.read(fname, **kwargs)", "self.header = header"], stmt_subst=_IO2_SUPER,
     doc="`swcgeom/images/io.py::NrrdImageStack.__init__` (the array `nrrd.read` returns is the parameter `imgs`; the object is its array, the "
         "value of the TRANSLATED `NDArrayImageStack.__init__`)")
# Trusted glue: `r = loader(); imgs = r.load(fname)` (the codec) gives the parameter `imgs`; no further keyword arguments.
spec(lean="v3d_init", module="AlgoImgIo2", file=_IO_FILE, cls="V3dImageStack", func="__init__", callee=["V3dImageStack_init"],
     params=["imgs", "dtype"], num_tparams=["K"],
     fparams=[_IO_F, _IO_CAST], vars={"imgs": "NdArr K", "dtype": "Option DType"}, ret="NdArr K",
     skip_stmts=["r = loader()", "imgs = r.load(fname)"],
     stmt_subst={"super().__init__(imgs, dtype=dtype, **kwargs)": "return NDArrayImageStack_init(imgs, dtype)"},
     doc="`swcgeom/images/io.py::V3dImageStack.__init__` (the array the v3dpy loader returns is the parameter `imgs`; the object is its array, the "
         "value of the TRANSLATED `NDArrayImageStack.__init__`)")
spec(lean="v3draw_init", module="AlgoImgIo2", file=_IO_FILE, cls="V3drawImageStack", func="__init__", params=["imgs", "dtype"], num_tparams=["K"],
     fparams=[_IO_F, _IO_CAST], vars={"imgs": "NdArr K", "dtype": "Option DType"}, ret="NdArr K",
     stmt_subst={"super().__init__(fname, loader=Raw, dtype=dtype, **kwargs)": "return V3dImageStack_init(imgs, dtype)"},
     doc="`swcgeom/images/io.py::V3drawImageStack.__init__` (the TRANSLATED `V3dImageStack.__init__` on the array the `Raw` loader returns)")
spec(lean="v3dpbd_init", module="AlgoImgIo2", file=_IO_FILE, cls="V3dpbdImageStack", func="__init__", params=["imgs", "dtype"], num_tparams=["K"],
     fparams=[_IO_F, _IO_CAST], vars={"imgs": "NdArr K", "dtype": "Option DType"}, ret="NdArr K",
     stmt_subst={"super().__init__(fname, loader=PBD, dtype=dtype, **kwargs)": "return V3dImageStack_init(imgs, dtype)"},
     doc="`swcgeom/images/io.py::V3dpbdImageStack.__init__` (the TRANSLATED `V3dImageStack.__init__` on the array the `PBD` loader returns)")

# Instantiation: `self` an NDArrayImageStack = its array `imgs`, whose `__getitem__(key)` is `self.imgs.__getitem__(key)` (J7).
spec(lean="imagestack_get_full", module="AlgoImgIo2", file=_IO_FILE, cls="ImageStack", func="get_full", params=["imgs"], num_tparams=["K"],
     vars={"imgs": "NdArr K"}, ret="NdArr K",
     doc="`swcgeom/images/io.py::ImageStack.get_full` (`self[:, :, :, :]`) on an object that is its array `imgs` and whose `__getitem__` hands the "
         "key to the array (NDArrayImageStack without its own `get_full`; no result = IndexError)")
# Instantiation: `self.imgs` an NDArrayImageStack = its array.
spec(lean="gray_get_full", module="AlgoImgIo2", file=_IO_FILE, cls="GrayImageStack", func="get_full", params=["imgs"], num_tparams=["K"],
     vars={"imgs": "NdArr K"}, ret="NdArr K", subst={"self.imgs": ("v.imgs", "NdArr K")},
     doc="`swcgeom/images/io.py::GrayImageStack.get_full` (`self.imgs` an NDArrayImageStack = its array: `get_full()` is the TRANSLATED "
         "`NDArrayImageStack.get_full`; no result = IndexError)")

# `ToImageStack.transform` once more, the instantiation in which the sampler's answer `voxel` is an n-d array: the frame conversion
# `(255 * voxel[..., 0, 0]).astype(np.uint8)` is TRANSLATED (in `raster_transform` of 18_raster.py it is the function parameter `toFrame`).
# Trusted glue: as for `raster_transform` minus the `toFrame` entry.
spec(lean="raster_transform_nd", module="AlgoImgIo2", file=_IS_FILE, cls="ToImageStack", func="transform",
     params=["ids", "pids", "x_xyz", "x_r", "resolution"], absent=["verbose", "ranges"], tparams=["σ"], num_tparams=["K"],
     fparams=[_RA_F, _RA_G, _RA_DIST, _IO_CAST], fuel=True, tree_cols={"x": {"id": "ids", "pid": "pids", "r": "x_r", "xyz": "x_xyz"}},
     callbacks={"sample": ("(sample : σ → Py.RangeSampler K → List (Py.Sdf K) → σ × Py.NdArr K)", 2, "NdArr K")},
     vars={"ids": "List Int", "pids": "List Int", "x_xyz": "List (List K)", "x_r": "List K", "resolution": "List K", "scene": "List (Sdf K)",
           "xyz": "List (List K)", "r": "Col K", "coord_min": "List K", "coord_max": "List K", "samplers": "List (RangeSampler K)",
           "sampler": "RangeSampler K", "voxel": "NdArr K", "frame": "NdArr K", "yielded_": "List (NdArr K)"},
     ret="Unit", out=["yielded_"],
     subst={"self.resolution": ("v.resolution", "List K"), "x.xyz()": ("v.x_xyz", "List (List K)"), "x.r()": ("v.x_r", "List K")},
     stmt_subst={"voxel = sampler.sample(scene)": "voxel = sample(sampler, scene)"},
     doc="`swcgeom/transforms/image_stack.py::ToImageStack.transform`, the instantiation `verbose` falsy / `ranges` not passed, the sampler's answer "
         "an n-d array: as `raster_transform`, with the frame conversion `(255 * voxel[..., 0, 0]).astype(np.uint8)` translated")

# `GrayImageStack.__getitem__` starts with `v = self[key]`: it calls ITSELF.  Translated as what it is, a recursive function (fuel = recursion
# depth); instantiation: an int-triple key, the result typed as an n-d array (a numpy scalar = a 0-d array).  RefineImgIo2.gray_getitem_never_returns.
spec(lean="gray_getitem", module="AlgoImgIo2", file=_IO_FILE, cls="GrayImageStack", func="__getitem__", params=["key"], num_tparams=["K"],
     fuel=True, rec_group="gray_getitem", vars={"key": "Int × Int × Int", "v": "NdArr K"}, ret="NdArr K",
     doc="`swcgeom/images/io.py::GrayImageStack.__getitem__` (the overload `key: Vec3i`; `v = self[key]` is a call of the method itself)")
# Trusted glue: the object is the stack it wraps.
spec(lean="gray_init", module="AlgoImgIo2", file=_IO_FILE, cls="GrayImageStack", func="__init__", params=["imgs"], num_tparams=["K"],
     vars={"imgs": "NdArr K"}, ret="NdArr K", stmt_subst={"self.imgs = imgs": "return imgs"},
     doc="`swcgeom/images/io.py::GrayImageStack.__init__` (the object is the stack it wraps, here an NDArrayImageStack = its array)")

# `ToImageStack.__init__`, the two instantiations of `resolution: int | float | ArrayLike`: a number (re-bound to the list of three copies) and a
# list.  Trusted glue: the object's field `self.resolution` is the variable `res`, the result.
_IO2_INIT = dict(module="AlgoImgIo2", file=_IS_FILE, cls="ToImageStack", func="__init__", params=["resolution"], num_tparams=["K"],
                 fparams=[_IO_CAST], ret="Unit", out=["res"], stores={"self.resolution": "res"}, subst={"self.resolution": ("v.res", "List K")})
spec(lean="tostack_init_scalar", vars={"resolution": "K", "resolution#2": "List K", "res": "List K"},
     doc="`swcgeom/transforms/image_stack.py::ToImageStack.__init__`, `resolution` a number (the field `self.resolution` is the result)", **_IO2_INIT)
spec(lean="tostack_init_array", vars={"resolution": "List K", "res": "List K"},
     doc="`swcgeom/transforms/image_stack.py::ToImageStack.__init__`, `resolution` a sequence of numbers (the field `self.resolution` is the result; no "
         "result = AssertionError)", **_IO2_INIT)

# `NDArrayImageStack.__getitem__`, the other overloads of `ImageStack.__getitem__` (`self.imgs` is the parameter `imgs`)
for _nm, _kt in (("int", "Int"), ("int2", "Int × Int"), ("int3", "Int × Int × Int"), ("slice", "Slice"), ("slice2", "Slice × Slice"),
                 ("slice3", "Slice × Slice × Slice"), ("slice4", "Slice × Slice × Slice × Slice")):
    spec(lean=f"ndarray_getitem_{_nm}", module="AlgoImgIo2", file=_IO_FILE, cls="NDArrayImageStack", func="__getitem__", params=["imgs", "key"],
         num_tparams=["K"], vars={"imgs": "NdArr K", "key": _kt}, ret="NdArr K", subst={"self.imgs": ("v.imgs", "NdArr K")},
         doc=f"`swcgeom/images/io.py::NDArrayImageStack.__getitem__`, the overload `key: {_kt.replace('Int', 'int').replace('Slice', 'slice')}` "
             "(`self.imgs` is the parameter `imgs`; no result = IndexError / ValueError)")
