# C10 (T4, `lmtopo`): the topological L-Measure functions of swcgeom/analysis/lmeasure.py and the Tree / Node / SWCLike methods they call.
# A tree is its columns (`ids`, `pids`, `types`), a node handle is its row index, a tree-valued expression (`node.subtree()`) is the pair of its
# (id, pid) columns (type `Tree`), a branch is the list of its node ids.  Executed in the namespace of harness/translate_algo.py.
_LM = "swcgeom/analysis/lmeasure.py"
_SELF3 = {"self": {"id": "ids", "pid": "pids", "type": "types"}}
_SELF2 = {"self": {"id": "ids", "pid": "pids"}}
MODULE_IMPORTS["AlgoLMeasure"] = ["Consts", "AlgoNode", "AlgoBranches", "AlgoSubtree"]
MODULE_MODEL_IMPORTS["AlgoLMeasure"] = ["PyMore"]
CALLEES["get_subtree_impl"] = "get_subtree_impl"

# --- Tree / Node / SWCLike methods
spec(lean="tree_soma", module="AlgoLMeasure", file=_TREE, cls="Tree", func="soma", tree_method="soma",
     params=["ids", "pids", "types", "type_check"],
     vars={"ids": "List Int", "pids": "List Int", "types": "List Int", "type_check": "Bool", "n": "Node@self"},
     ret="Node@self", tree_cols=_SELF3, defaults={"type_check": "True"},
     # trusted: the tree carries the default SWC type codes (`SWCTypes.soma`, regenerated into Gen/Consts.lean from swc.py on every run)
     subst={"self.types.soma": ("Gen.Consts.type_soma", "Int")})
spec(lean="tree_get_tips", module="AlgoLMeasure", file=_TREE, cls="Tree", func="get_tips", tree_method="get_tips",
     params=["ids", "pids"], vars={"ids": "List Int", "pids": "List Int", "tip_ids": "List Int", "i": "Int"},
     ret="List Node@self", tree_cols=_SELF2)
spec(lean="node_subtree", module="AlgoLMeasure", file=_TREE, cls="Tree.Node", func="subtree", node_method="subtree",
     params=["ids", "pids", "self"],
     vars={"ids": "List Int", "pids": "List Int", "self": "Node@self.attach", "sub": "((List Int) × (List Int)) × (List Int)"},
     ret="Tree", fuel=True, tree_cols={"self.attach": {"id": "ids", "pid": "pids"}},
     # trusted: at the topology level `get_subtree_impl` (translated in Gen/AlgoSubtree.lean) returns ((new ids, new pids), mapping) and the new
     # `Tree(n_nodes, **ndata)` is those two columns (`to_subtree_impl`: `ndata[names.id] = new_id; ndata[names.pid] = new_pid`)
     stmt_subst={"n_nodes, ndata, source, names = get_subtree_impl(self.attach, self.id, out_mapping=out_mapping)":
                 "sub = get_subtree_impl(self.attach.id(), self.attach.pid(), self.id)",
                 "return Tree(n_nodes, **ndata, source=source, names=names)": "return sub[0]"},
     doc="`swcgeom/core/tree.py::Tree.Node.subtree` at the topology level (the new tree is its (id, pid) columns)")
spec(lean="swc_number_of_edges", module="AlgoLMeasure", file="swcgeom/core/swc.py", cls="SWCLike", func="number_of_edges",
     tree_method="number_of_edges", params=["ids"], vars={"ids": "List Int"}, ret="Int", tree_cols={"self": {"id": "ids"}})

# --- LMeasure
_T3 = {"tree": {"id": "ids", "pid": "pids", "type": "types"}}
_TV = {"ids": "List Int", "pids": "List Int", "types": "List Int"}
spec(lean="lm_n_stems", module="AlgoLMeasure", file=_LM, cls="LMeasure", func="n_stems", params=["ids", "pids", "types"], vars=dict(_TV), ret="Int",
     tree_cols=_T3)
spec(lean="lm_n_bifs", module="AlgoLMeasure", file=_LM, cls="LMeasure", func="n_bifs", params=["ids", "pids", "types"], vars=dict(_TV), ret="Int",
     fuel=True, tree_cols=_T3)
spec(lean="lm_n_branch", module="AlgoLMeasure", file=_LM, cls="LMeasure", func="n_branch", params=["ids", "pids", "types"], vars=dict(_TV), ret="Int",
     fuel=True, tree_cols=_T3)
spec(lean="lm_n_tips", module="AlgoLMeasure", file=_LM, cls="LMeasure", func="n_tips", params=["ids", "pids", "types"], vars=dict(_TV), ret="Int",
     tree_cols=_T3)
_NA = {"node.attach": {"id": "ids", "pid": "pids"}}
spec(lean="lm_branch_order", module="AlgoLMeasure", file=_LM, cls="LMeasure", func="branch_order", params=["ids", "pids", "node"],
     vars={"ids": "List Int", "pids": "List Int", "node": "Node@node.attach", "n": "Option Node@node.attach", "order": "Int"},
     ret="Int", fuel=True, tree_cols=_NA)
spec(lean="lm_terminal_degree", module="AlgoLMeasure", file=_LM, cls="LMeasure", func="terminal_degree", params=["ids", "pids", "node"],
     vars={"ids": "List Int", "pids": "List Int", "node": "Node@node.attach"}, ret="Int", fuel=True, tree_cols=_NA)
spec(lean="lm_partition_asymmetry", module="AlgoLMeasure", file=_LM, cls="LMeasure", func="partition_asymmetry", params=["ids", "pids", "n"],
     vars={"ids": "List Int", "pids": "List Int", "n": "Node@n.attach", "children": "List Node@n.attach", "n1": "Int", "n2": "Int"},
     ret="Frac", fuel=True, tree_cols={"n.attach": {"id": "ids", "pid": "pids"}},
     doc="`swcgeom/analysis/lmeasure.py::LMeasure.partition_asymmetry` (the result is the exact quotient as a pair (numerator, denominator))")
spec(lean="lm_fragmentation", module="AlgoLMeasure", file=_LM, cls="LMeasure", func="fragmentation", params=["ids"], vars={"ids": "List Int"},
     ret="Int", tree_cols={"branch": {"id": "ids"}},
     doc="`swcgeom/analysis/lmeasure.py::LMeasure.fragmentation` (the branch is the list of its node ids; `Path.id()` has that length)")
