# C16 (session 4, T36 `resamtree`): the TREE-level drivers of resampling / smoothing  ->  Gen/AlgoResampleTree.lean
#   swcgeom/transforms/tree.py::Resampler.__call__      -> resam_tree   (calls the generated bt_from_tree and bt_assemble)
#   swcgeom/transforms/tree.py::TreeSmoother.__call__   -> smooth_tree  (calls the generated get_branches and conv_smooth)
# Notes: design_notes/session4/resamtree.md (every piece of trusted glue is listed there).
MODULE_IMPORTS["AlgoResampleTree"] = ["AlgoBranches", "AlgoBranchTree", "AlgoAssemble", "AlgoResample"]
MODULE_MODEL_IMPORTS["AlgoResampleTree"] = ["PyResample", "PyResampleTree"]
share_hooks("AlgoResample", "AlgoResampleTree")
share_hooks("AlgoBranchTree", "AlgoResampleTree")


# ---- general constructs added through the extension hooks --------------------------------------------------------------------------

def _rt_alias_call(tr, e, want):
    """`call_alias` entry whose target is `lean:<name>`: a call that is, on the modelled data, a call of the translated function `<name>`
    with the listed arguments (positions of the call's own arguments or source text over the modelled data).  Unlike the built-in rule the
    callee's callbacks / pure function parameters only have to be AMONG the caller's (they are passed by name, the callback state is shared)."""
    if not isinstance(e, ast.Call):
        return None
    al = tr.spec.call_alias.get(ast.unparse(e.func))
    if al is None or not al[0].startswith("lean:"):
        return None
    callee = by_lean_global.get(al[0][5:])
    if callee is None:
        raise Untranslatable(f"{tr.spec.lean}: `{ast.unparse(e)}`: no translated function {al[0][5:]}")
    if e.keywords or any(isinstance(x, ast.Starred) for x in e.args) or len(al[1]) != len(callee.params):
        raise Untranslatable(f"{tr.spec.lean}: arguments of `{ast.unparse(e)}`")
    for k, cb in callee.callbacks.items():
        if tr.spec.callbacks.get(k) != cb:
            raise Untranslatable(f"{tr.spec.lean}: callback `{k}` of {callee.lean} is not a callback of the caller")
    if any(b not in tr.spec.fparams for b in callee.fparams) or any(t not in tr.spec.num_tparams for t in callee.num_tparams) \
            or any(t not in tr.spec.tparams for t in callee.tparams) or callee.out or callee.raises:
        raise Untranslatable(f"{tr.spec.lean}: `{ast.unparse(e)}`: parameters of {callee.lean} that the caller does not have")
    if callee.fuel and not tr.spec.fuel:
        raise Untranslatable(f"{tr.spec.lean} calls {callee.lean} which needs fuel")
    # every argument of the call is used: by position, as a tree that is column variables (`tree_cols`, passed as its columns), or as a
    # variable the source-text arguments read (`t` in `t.id`)
    read = {nd.id for a in al[1] if isinstance(a, str) for nd in ast.walk(ast.parse(a, mode="eval")) if isinstance(nd, ast.Name)}
    for i, x in enumerate(e.args):
        if not (i in al[1] or ast.unparse(x) in tr.spec.tree_cols or (isinstance(x, ast.Name) and x.id in read)):
            raise Untranslatable(f"{tr.spec.lean}: `{ast.unparse(e)}`: argument {i} is not used by the alias")
    steps, codes = [], []
    for pn, a in zip(callee.params, al[1]):
        x = e.args[a] if isinstance(a, int) else ast.parse(a, mode="eval").body
        pt = parse_type(callee.vars[pn])
        s0, c, t = tr.tr(x, pt)
        if show_type(t) != show_type(pt):            # node handles are the integers they are
            raise Untranslatable(f"{tr.spec.lean}: `{ast.unparse(e)}`: `{pn}` is {t}, expected {pt}")
        steps += s0; codes.append(c)
    names = " ".join([b.split()[0].strip("(") for b, _, _ in callee.callbacks.values()] + [b.split()[0].strip("(") for b in callee.fparams])
    n = tr.bindname()
    call = f"{callee.lean} {names + ' ' if names else ''}{'fuel ' if callee.fuel else ''}{' '.join(codes)}"
    if callee.callbacks:
        steps.append(f"Py.bind ({call} v.cbs) fun {n} => let v := {{ v with cbs := {n}.1 }};")
        return steps, f"{n}.2", parse_type(callee.ret)
    steps.append(f"Py.bind ({call}) fun {n} =>")
    return steps, n, parse_type(callee.ret)


def _rt_scatter(tr, s):
    """`A[I] = B` for a 1-d array `A` that is a variable (or a `stores` container), an integer index ARRAY `I` and an array `B` of the element
    type of `A`: `A[I[j]] = B[j]` for j = 0, 1, ... in this order (`Py.scatter`; a length mismatch or an index out of range raises)."""
    if not (isinstance(s, ast.Assign) and len(s.targets) == 1 and isinstance(s.targets[0], ast.Subscript)):
        return None
    tgt = s.targets[0]
    if isinstance(tgt.slice, (ast.Slice, ast.Tuple)):
        return None
    btxt = ast.unparse(tgt.value)
    name = tr.spec.stores.get(btxt, btxt if isinstance(tgt.value, ast.Name) else None)
    if name is None or name not in tr.vars:
        return None
    ta = tr.vars[name]
    if not (isinstance(ta, tuple) and ta[0] == "List"):
        return None
    s2, b, tb = tr.tr(s.value, ta)                      # right-hand side first
    if tb != ta:
        return None
    s1, i, ti = tr.tr(tgt.slice)
    if show_type(ti) != "(List Int)":
        return None
    n = tr.bindname()
    return tr.chain(s2 + s1 + [f"Py.bind (Py.scatter v.{lname(name)} {i} {b}) fun {n} =>"], f".next {{ v with {lname(name)} := {n} }}")


EXPR_HOOKS.append(_rt_alias_call)
STMT_HOOKS.append(_rt_scatter)


# ---- Resampler.__call__ --------------------------------------------------------------------------------------------------------------
# Data (as in 09_branchtree.py / 30_assembler.py): the tree `x` is its topology columns `ids`, `pids`; the branch tree `t` is the record
# `BranchTreeObj`; an original Branch is the list of its rows, a resampled Branch the list of its sample handles (opaque integers; their
# geometry is read only through the callbacks).  `self.resampler(br)` is a state-passing callback (any function), sharing its state with the
# assembler's `pair`; `self.assembler(t)` is the generated `bt_assemble` on the table and the `branches` of `t`.
_RT_CBS = {
    "self.resampler": ("(resample : σ → List Int → σ × List Int)", 1, "List Int"),
    "self.pair": ("(pair : σ → List (List Int) → List Int → σ × List ((List Int) × Int))", 2, "List ((List Node@br) × Node@x)"),
    "<dup_first>": ("(dupFirst : List Int → Int → Bool)", 2, "Bool"),
    "<dup_last>": ("(dupLast : List Int → Int → Bool)", 2, "Bool")}

spec(lean="resam_tree", module="AlgoResampleTree", file="swcgeom/transforms/tree.py", cls="Resampler", func="__call__",
     params=["ids", "pids"], tparams=["σ"], fuel=True, callbacks=_RT_CBS,
     vars={"ids": "List Int", "pids": "List Int", "t": "BranchTreeObj", "k": "Int", "brs": "List (List Int)", "br": "List Int"},
     ret="(List Int) × (List Int)", tree_cols={"x": {"id": "ids", "pid": "pids"}},
     # GLUE: the two calls are calls of the generated functions on the modelled data
     call_alias={"BranchTree.from_tree": ("lean:bt_from_tree", ["ids", "pids"]),
                 "self.assembler": ("lean:bt_assemble", ["t.id", "t.pid", "t.branches"])},
     doc="`swcgeom/transforms/tree.py::Resampler.__call__` at the topology level: `BranchTree.from_tree(x)` is the generated `bt_from_tree`, "
         "`self.resampler` a state-passing callback, `self.assembler(t)` the generated `bt_assemble` on the table and the branches of `t`")


# ---- TreeSmoother.__call__ -----------------------------------------------------------------------------------------------------------
# Data: the (copied) tree `x` is its topology columns `ids`, `pids` and the three coordinate columns `xs`, `ys`, `zs` (`x.ndata["x"]`, ...);
# a Branch of it is the list of its rows.
_SM_GET = lambda k: (f"t_s{k}", "List K", [f"Py.bind (Py.Dict.get? v.smoothed \"{k}\") fun t_s{k} =>"])
spec(lean="smooth_tree", module="AlgoResampleTree", file="swcgeom/transforms/tree.py", cls="TreeSmoother", func="__call__",
     params=["ids", "pids", "xs", "ys", "zs", "kernel"], num_tparams=["K"], fparams=["(F : Py.Fld K)"], fuel=True,
     vars={"ids": "List Int", "pids": "List Int", "xs": "List K", "ys": "List K", "zs": "List K", "kernel": "List K",
           "br": "List Int", "smoothed": "Dict String (List K)"},
     ret="Unit", out=["xs", "ys", "zs"], tree_cols={"x": {"id": "ids", "pid": "pids"}},
     # GLUE (trusted): the copy is the value semantics of the column variables
     skip_stmts=["x = x.copy()"],
     stores={"x.ndata['x']": "xs", "x.ndata['y']": "ys", "x.ndata['z']": "zs"},
     subst={
         # `self.trans` is `BranchConvSmoother(n_nodes)` (set in `__init__`): the generated `conv_smooth` on the dictionary of the branch's
         # columns (`br.detach()` gathers the rows `br`; only "x", "y", "z" are read or written by the smoother) with `self.trans.kernel`
         "self.trans(br)": ("t_sm.1", "Dict String (List K)",
                            ["Py.bind (Py.take v.xs v.br) fun t_gx =>", "Py.bind (Py.take v.ys v.br) fun t_gy =>",
                             "Py.bind (Py.take v.zs v.br) fun t_gz =>",
                             "Py.bind (conv_smooth F [(\"x\", t_gx), (\"y\", t_gy), (\"z\", t_gz)] (Py.len v.br) v.kernel) fun t_sm =>"]),
         # `Path.origin_id()` = the id column at the rows of the branch = the rows themselves (ids are positions in a Tree)
         "br.origin_id()": ("v.br", "List Int"),
         "smoothed.x()": _SM_GET("x"), "smoothed.y()": _SM_GET("y"), "smoothed.z()": _SM_GET("z"),
         "x": ("()", "Unit")},
     doc="`swcgeom/transforms/tree.py::TreeSmoother.__call__` (the copied tree is its columns `ids`, `pids`, `xs`, `ys`, `zs`; a Branch is the "
         "list of its rows; `self.trans(br)` is the generated `conv_smooth` on the gathered columns)")
