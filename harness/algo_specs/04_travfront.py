# C04 (T13 `travfront`): the three public entry points above `_traverse_dfs`  ->  Gen/AlgoTravFront.lean
#   swcgeom/core/swc_utils/base.py::traverse        (`match mode:` dispatcher, `**kwargs` forwarding)
#   swcgeom/core/tree.py::Tree.traverse             (the `wrap` closure factory; `fn_wrapped(idx, *args, **kwargs) = fn(self[idx], *args, **kwargs)`)
#   swcgeom/core/tree.py::Tree.__getitem__ (int key), swcgeom/core/swc.py::SWCLike.__len__
#   swcgeom/core/tree.py::Tree.Node.traverse        (`self.attach.traverse(root=self.idx, **kwargs)`)
# each specialised to the keyword sets of its @overload signatures (enter / leave / both, with and without `root`).
#
# Everything below the line "the specs" is data; everything above it is GENERAL: Python constructs and their meaning, added through the
# extension hooks of translate_algo.py (nothing is keyed on a function name):
#   (P) signature instantiation (a source pre-pass): `*args` / `**kwargs` of a definition that this instantiation calls with a known number of
#       positional values / a known keyword set become explicit parameters, every `*args` / `**kwargs` in a call inside it becomes the explicit
#       arguments; parameters with a default that the instantiation does not pass are bound to their default on entry.
#   (H1) `len(t)` / `t[i]` on a tree that is column variables: the call of the TRANSLATED `__len__` / `__getitem__`.
#   (H2) `if isinstance(x, C):` on a variable whose declared type decides it (an `Int` is an `int`/`np.integer`, not a `slice`/`str`).
#   (H3) `a, b = wrap(a), wrap(b)` with `wrap` a nested closure factory `def wrap(fn): [if fn is None: return None]; def g(...): ...; return g`:
#        afterwards the name denotes the closure `g` over `fn := <the callback>` (or stays None for a callback this instantiation does not pass).
#   (H4) a call that passes callbacks BY KEYWORD to a function translated in several instantiations (one per keyword set): selects the
#        instantiation, hands over this function's callbacks / closure values, a callback that is None (not passed, default None) is the
#        trivial callback where the callee was translated with the callback always present.
MODULE_IMPORTS["AlgoTravFront"] = ["AlgoTraverse"]
MODULE_MODEL_IMPORTS["AlgoTravFront"] = ["PyTravFront"]

VARKW = {}           # lean name -> {"args": [names], "kwargs": [names]}: what `*args` / `**kwargs` hold in this instantiation
FACTORY_INST = {}    # lean name of an outer function -> {name bound by `name = wrap(name)`: lean name of the closure's translation}
FRONT_CALLERS = set()  # lean names of functions whose `tree.traverse(enter=F, leave=G)` with NESTED closures F, G calls the TRANSLATED Tree.traverse (H4)
                     # instead of the translator's built-in reading of that call
INSTANCES = {}       # python call text of a function / method name of a tree  ->  lean names of its instantiations
TREE_INSTANCES = {}


def _scoped_nodes(body, name):
    """the nodes of `body` in whose scope `name` is the enclosing function's variable (not re-bound by a nested def / lambda)"""
    def rebinds(nd):
        if not isinstance(nd, (ast.FunctionDef, ast.Lambda)):
            return False
        a = nd.args
        return name in [x.arg for x in a.posonlyargs + a.args + a.kwonlyargs] + [x.arg for x in (a.vararg, a.kwarg) if x is not None]
    todo = [nd for nd in body if not rebinds(nd)]
    while todo:
        nd = todo.pop()
        yield nd
        todo += [ch for ch in ast.iter_child_nodes(nd) if not rebinds(ch)]


def instantiate_signature(sp, d):
    """(P) on the definition `d` (mutated in place)"""
    inst = VARKW.get(sp.lean)
    if inst is None:
        return
    a = d.args
    for slot, names in (("vararg", inst.get("args", [])), ("kwarg", inst.get("kwargs", []))):
        var = getattr(a, slot)
        if var is None:
            if names:
                raise Untranslatable(f"{sp.lean}: `{d.name}` has no {'*' if slot == 'vararg' else '**'}parameter to hold {names}")
            continue
        used = 0
        for nd in _scoped_nodes(d.body, var.arg):
            if not isinstance(nd, ast.Call):
                continue
            if slot == "vararg":
                new = []
                for x in nd.args:
                    if isinstance(x, ast.Starred) and isinstance(x.value, ast.Name) and x.value.id == var.arg:
                        new += [ast.Name(n, ast.Load()) for n in names]; used += 1
                    else:
                        new.append(x)
                nd.args = new
            else:
                new = []
                for k in nd.keywords:
                    if k.arg is None and isinstance(k.value, ast.Name) and k.value.id == var.arg:
                        new += [ast.keyword(n, ast.Name(n, ast.Load())) for n in names]; used += 1
                    else:
                        new.append(k)
                nd.keywords = new
        left = [nd for nd in _scoped_nodes(d.body, var.arg) if isinstance(nd, ast.Name) and nd.id == var.arg]
        if left:
            raise Untranslatable(f"{sp.lean}: `{var.arg}` of `{d.name}` is used other than as `{'*' if slot == 'vararg' else '**'}{var.arg}` in a call")
        if slot == "vararg":
            a.args = a.args + [ast.arg(n) for n in names]
        else:
            a.kwonlyargs = a.kwonlyargs + [ast.arg(n) for n in names]
            a.kw_defaults = a.kw_defaults + [None] * len(names)
        setattr(a, slot, None)
    for nd in ast.walk(d):
        if not hasattr(nd, "lineno"):
            nd.lineno = nd.col_offset = nd.end_lineno = nd.end_col_offset = 0


def bind_unpassed_defaults(sp, d):
    """(P) parameters with a default that this instantiation does not pass hold their default on entry"""
    a = d.args
    pos = a.posonlyargs + a.args
    dfl = dict(zip([x.arg for x in pos[len(pos) - len(a.defaults):]], a.defaults))
    dfl.update({x.arg: v for x, v in zip(a.kwonlyargs, a.kw_defaults) if v is not None})
    pre = []
    for n, v in dfl.items():
        if n in sp.params or n in sp.callbacks or n in sp.absent or n not in sp.vars:
            continue
        asg = ast.Assign([ast.Name(n, ast.Store())], v)
        asg.lineno = asg.col_offset = asg.end_lineno = asg.end_col_offset = 0
        ast.fix_missing_locations(asg)
        pre.append(asg)
    d.body = pre + d.body


_translate0 = FnTr.translate


def _translate_instantiated(self, fdef):
    sp = self.spec
    self.fnvals = {}
    if sp.lean in VARKW:
        import copy
        fdef = copy.deepcopy(fdef)
        if sp.nested:
            instantiate_signature(sp, find_nested(fdef, sp.nested))
        else:
            instantiate_signature(sp, fdef)
            bind_unpassed_defaults(sp, fdef)
    self.fdef0 = fdef
    return _translate0(self, fdef)


FnTr.translate = _translate_instantiated       # the pre-pass (P); functions without a VARKW entry are translated as before


# ---- (H1) --------------------------------------------------------------------------------------------------------------------------------
def _h_tree_len_getitem(tr, e, want):
    if (isinstance(e, ast.Call) and isinstance(e.func, ast.Name) and e.func.id == "len" and len(e.args) == 1 and not e.keywords
            and ast.unparse(e.args[0]) in tr.spec.tree_cols and "__len__" in TREE_METHODS):
        new = ast.Call(ast.Attribute(e.args[0], "__len__", ast.Load()), [], [])
        return tr.tr(ast.fix_missing_locations(ast.copy_location(new, e)), want)
    if (isinstance(e, ast.Subscript) and ast.unparse(e.value) in tr.spec.tree_cols and "__getitem__" in TREE_METHODS
            and not isinstance(e.slice, (ast.Slice, ast.Tuple)) and isinstance(e.ctx, ast.Load)):
        try:
            _, _, ti = tr.tr(e.slice)
        except Untranslatable:
            return None
        if ti == "Int":
            new = ast.Call(ast.Attribute(e.value, "__getitem__", ast.Load()), [e.slice], [])
            return tr.tr(ast.fix_missing_locations(ast.copy_location(new, e)), want)
    return None


EXPR_HOOKS.append(_h_tree_len_getitem)

# ---- (H2) --------------------------------------------------------------------------------------------------------------------------------
_ISINSTANCE = {"Int": {"int": True, "np.integer": True, "numpy.integer": True, "slice": False, "str": False, "float": False, "list": False,
                       "tuple": False, "dict": False}}


def _isinstance_truth(tr, test):
    if not (isinstance(test, ast.Call) and isinstance(test.func, ast.Name) and test.func.id == "isinstance" and len(test.args) == 2
            and not test.keywords and isinstance(test.args[0], ast.Name) and test.args[0].id in tr.vars):
        return None
    t = tr.vars[test.args[0].id]
    classes = test.args[1].elts if isinstance(test.args[1], ast.Tuple) else [test.args[1]]
    known = _ISINSTANCE.get(t) if isinstance(t, str) else None
    if known is None:
        return None
    vals = [known.get(ast.unparse(c)) for c in classes]
    if any(v is None for v in vals):
        raise Untranslatable(f"{tr.spec.lean}: `{ast.unparse(test)}` on a variable of type {t}")
    return any(vals)


def _h_static_isinstance(tr, s):
    if not isinstance(s, ast.If):
        return None
    known = _isinstance_truth(tr, s.test)
    if known is None:
        return None
    live = s.body if known else s.orelse
    return tr.block(live) if live else "Py.skip"


STMT_HOOKS.append(_h_static_isinstance)


# ---- (H3) --------------------------------------------------------------------------------------------------------------------------------
def _factory_shape(tr, w):
    """`def wrap(p): [doc]; [if p is None: return None]; def g(...): ...; return g`  ->  (p, guarded, g)"""
    a = w.args
    if len(a.args) != 1 or a.posonlyargs or a.kwonlyargs or a.vararg or a.kwarg or a.defaults:
        raise Untranslatable(f"{tr.spec.lean}: closure factory `{w.name}` must take one parameter")
    p = a.args[0].arg
    body = [st for st in w.body if not (isinstance(st, ast.Expr) and isinstance(st.value, ast.Constant) and isinstance(st.value.value, str))]
    guarded = False
    if body and isinstance(body[0], ast.If):
        if ast.unparse(body[0]) != f"if {p} is None:\n    return None":
            raise Untranslatable(f"{tr.spec.lean}: closure factory `{w.name}`: `{ast.unparse(body[0]).splitlines()[0]}`")
        guarded, body = True, body[1:]
    if not (len(body) == 2 and isinstance(body[0], ast.FunctionDef) and ast.unparse(body[1]) == f"return {body[0].name}"):
        raise Untranslatable(f"{tr.spec.lean}: closure factory `{w.name}` is not `def g(...): ...; return g`")
    return p, guarded, body[0]


def _cb_type(binder):
    return binder.strip("()").split(":", 1)[1].strip()


def _h_factory_assign(tr, s):
    if not (isinstance(s, ast.Assign) and len(s.targets) == 1):
        return None
    tg, val = s.targets[0], s.value
    tgs, vals = ((tg.elts, val.elts) if isinstance(tg, ast.Tuple) and isinstance(val, ast.Tuple) and len(tg.elts) == len(val.elts) else ([tg], [val]))
    fdef0 = getattr(tr, "fdef0", None)
    if fdef0 is None or not all(isinstance(v, ast.Call) and isinstance(v.func, ast.Name) and v.func.id in tr.spec.closures
                                and len(v.args) == 1 and not v.keywords for v in vals):
        return None
    inst = FACTORY_INST.get(tr.spec.lean, {})
    for t, v in zip(tgs, vals):
        w = [n for n in fdef0.body if isinstance(n, ast.FunctionDef) and n.name == v.func.id]
        if len(w) != 1:
            raise Untranslatable(f"{tr.spec.lean}: closure factory `{v.func.id}` not found")
        p, guarded, g = _factory_shape(tr, w[0])
        arg = v.args[0]
        if not (isinstance(t, ast.Name) and isinstance(arg, ast.Name) and t.id == arg.id):
            raise Untranslatable(f"{tr.spec.lean}: `{ast.unparse(s)}` (only `name = {v.func.id}(name)` is supported)")
        if arg.id in tr.fnvals:
            raise Untranslatable(f"{tr.spec.lean}: `{arg.id}` is wrapped twice")
        if arg.id in tr.spec.absent:
            if not guarded:
                raise Untranslatable(f"{tr.spec.lean}: `{v.func.id}(None)` builds a closure over None")
            continue                                  # wrap(None) = None: the callback stays absent
        if arg.id not in tr.spec.callbacks:
            raise Untranslatable(f"{tr.spec.lean}: `{ast.unparse(v)}`: `{arg.id}` is not a callback of this instantiation")
        cl = by_lean_global.get(inst.get(t.id))
        if cl is None:
            raise Untranslatable(f"{tr.spec.lean}: no translated closure for `{t.id} = {ast.unparse(v)}`")
        if (cl.nested != g.name or (cl.file, cl.cls, cl.func) != (tr.spec.file, tr.spec.cls, tr.spec.func) or list(cl.callbacks) != [p]
                or _cb_type(cl.callbacks[p][0]) != _cb_type(tr.spec.callbacks[arg.id][0]) or cl.callbacks[p][1:] != tr.spec.callbacks[arg.id][1:]):
            raise Untranslatable(f"{tr.spec.lean}: the closure `{cl.lean}` is not `{g.name}` of `{v.func.id}` over `{p}` : {tr.spec.callbacks[arg.id][0]}")
        tr.fnvals[t.id] = (cl, arg.id)
    return "Py.skip"


STMT_HOOKS.append(_h_factory_assign)


# ---- (H4) --------------------------------------------------------------------------------------------------------------------------------
def _source_params(sp):
    """(names of the declared parameters, has **kwargs, defaults) of the python definition a spec translates"""
    p = REPO / sp.file
    if p not in _AST_CACHE:
        _AST_CACHE[p] = ast.parse(p.read_text())
    a = find_def(_AST_CACHE[p], sp.cls, sp.func).args
    return [x.arg for x in a.posonlyargs + a.args + a.kwonlyargs], a.kwarg is not None, fn_defaults(sp)


def _h_call_with_callbacks(tr, e, want):
    if not isinstance(e, ast.Call):
        return None
    fnvals = getattr(tr, "fnvals", {})
    if isinstance(e.func, ast.Name) and e.func.id in fnvals:
        raise Untranslatable(f"{tr.spec.lean}: direct call of the closure `{e.func.id}`")
    f = ast.unparse(e.func)
    recv = None
    if f in INSTANCES:
        cands = [by_lean_global[n] for n in INSTANCES[f]]
    elif isinstance(e.func, ast.Attribute) and e.func.attr in TREE_INSTANCES and ast.unparse(e.func.value) in tr.spec.tree_cols:
        cands = [by_lean_global[n] for n in TREE_INSTANCES[e.func.attr]]
        recv = ast.unparse(e.func.value)
    else:
        return None
    if any(k.arg is None for k in e.keywords) or any(isinstance(x, ast.Starred) for x in e.args):
        raise Untranslatable(f"{tr.spec.lean}: `{f}(…)` forwards */** arguments whose content is not declared")
    kw = {k.arg: k.value for k in e.keywords}
    cbnames = []
    for c in cands:
        cbnames += [n for n in list(c.callbacks) + list(c.absent) if n not in cbnames]

    def kind(x):
        if isinstance(x, ast.Constant) and x.value is None:
            return "absent"
        if isinstance(x, ast.Name) and x.id in fnvals:
            return "closure"
        if isinstance(x, ast.Name) and x.id in tr.spec.absent and x.id not in tr.vars:
            return "absent"
        if isinstance(x, ast.Name) and x.id in tr.spec.callbacks:
            return "direct"
        if isinstance(x, ast.Name) and x.id in tr.spec.closures and tr.spec.lean in FRONT_CALLERS:
            return "nested"
        return None
    kinds = {n: kind(kw[n]) for n in cbnames if n in kw}
    if not kinds or any(k is None for k in kinds.values()):
        return None                                       # not a call that hands callbacks of this function over by keyword
    names_src, has_kwargs, dfl = _source_params(cands[0])
    for n in cbnames:
        if n not in kw and n in names_src and not (n in dfl and isinstance(dfl[n], ast.Constant) and dfl[n].value is None):
            raise Untranslatable(f"{tr.spec.lean}: `{f}` is called without `{n}`, whose default is not None")
    present = [n for n in cbnames if kinds.get(n) in ("closure", "direct", "nested")]
    if not present:
        return None
    if len({kinds[n] for n in present}) != 1:
        raise Untranslatable(f"{tr.spec.lean}: `{ast.unparse(e)}` mixes wrapped and unwrapped callbacks")
    others = [n for n in kw if n not in cbnames]
    # the instantiation: exactly the present callbacks (or, for a function translated once with every callback present, a superset: the
    # missing ones are the trivial callback) and exactly the passed parameters
    def cols_of(c):
        return set().union(*[set(d.values()) for d in c.tree_cols.values()]) if (recv is not None and c.tree_cols) else set()
    def fits(c, exact):
        rest = [p for p in c.params if p not in cols_of(c)]
        ok_cb = set(c.callbacks) == set(present) if exact else (set(c.callbacks) >= set(present) and not c.absent)
        return ok_cb and len(rest) >= len(e.args) and set(rest[len(e.args):]) >= set(others) and \
            all(p in others or (p in dfl and not exact) for p in rest[len(e.args):])
    pick = [c for c in cands if fits(c, True)] or [c for c in cands if fits(c, False)]
    if len(pick) != 1:
        raise Untranslatable(f"{tr.spec.lean}: no (unique) instantiation of `{f}` for callbacks {present} and keywords {others}")
    callee = pick[0]
    if callee.out or callee.raises or not callee.callbacks:
        raise Untranslatable(f"{tr.spec.lean}: `{callee.lean}` cannot be called with callbacks")
    if callee.fuel and not tr.spec.fuel:
        raise Untranslatable(f"{tr.spec.lean} calls {callee.lean} which needs fuel")
    steps, codes = [], []
    rest = [p for p in callee.params if p not in cols_of(callee)]
    given = dict(zip(rest, e.args))
    given.update({n: kw[n] for n in others})
    inv = {}
    if recv is not None:
        (ctree, ccols), = callee.tree_cols.items()
        inv = {var: key for key, var in ccols.items()}
    for pn in callee.params:
        if pn in inv:
            mine = tr.spec.tree_cols[recv]
            if inv[pn] not in mine:
                raise Untranslatable(f"{tr.spec.lean}: `{ast.unparse(e)}` needs column `{inv[pn]}` of `{recv}`")
            codes.append(f"v.{lname(mine[inv[pn]])}")
            continue
        x = given.get(pn, dfl.get(pn))
        if x is None:
            raise Untranslatable(f"{tr.spec.lean}: `{ast.unparse(e)}` gives no value for `{pn}`")
        pt = parse_type(callee.vars[pn])
        s0, c, t = tr.tr(x, pt)
        if t != pt and not (is_node(t) or is_node(pt)):
            c = tr.coerce(c, t, pt)
        steps += s0; codes.append(c)
    # the callbacks, in the order of the callee's binders
    cbcodes, subst_unit, caps, with_cbs = [], {}, None, True
    for n, (binder, nargs, rty) in callee.callbacks.items():
        if n not in present:
            if nargs != 2:
                raise Untranslatable(f"{tr.spec.lean}: trivial callback of {nargs} arguments")
            cbcodes.append("Py.absent2")               # `cb(a, b) if cb is not None else None`
            subst_unit[rty] = "Unit"
        elif kinds[n] == "direct":
            mine = tr.spec.callbacks[kw[n].id]
            if _cb_type(mine[0]) != _cb_type(binder) or mine[1:] != (nargs, rty):
                raise Untranslatable(f"{tr.spec.lean}: callback `{kw[n].id}` : {mine[0]} passed as `{n}` {binder}")
            cbcodes.append(mine[0].split()[0].strip("("))
        elif kinds[n] == "nested":
            # a nested function of this function (translated separately, over its captured variables; it calls no callback of this function)
            cl = by_lean_global[tr.spec.closures[kw[n].id]]
            if cl.callbacks or cl.fparams != tr.spec.fparams or cl.tparams != tr.spec.tparams or cl.num_tparams != tr.spec.num_tparams or len(cl.params) != nargs:
                raise Untranslatable(f"{tr.spec.lean}: closure `{cl.lean}` passed as `{n}` {binder}")
            if caps is not None and caps != cl.captures:
                raise Untranslatable(f"{tr.spec.lean}: the closures capture different variables")
            caps, with_cbs = cl.captures, False
            subst_unit[rty] = cl.ret                   # the callee's value type is the closure's result type
            cbcodes.append(f"(Py.wrap2 ({cl.lean} {tr.bargs_nofuel}))" if tr.bargs_nofuel else f"(Py.wrap2 {cl.lean})")
        else:
            cl, user = fnvals[kw[n].id]
            (p, (cbinder, cn, crty)), = cl.callbacks.items()
            if (cn, crty) != (nargs, rty) or parse_type(cl.ret) != parse_type(rty):
                raise Untranslatable(f"{tr.spec.lean}: closure `{cl.lean}` passed as `{n}` {binder}")
            if caps is not None and caps != cl.captures:
                raise Untranslatable(f"{tr.spec.lean}: the closures capture different variables")
            caps = cl.captures
            cbcodes.append(f"(Py.wrap2 ({cl.lean} {tr.spec.callbacks[user][0].split()[0].strip('(')}))")
    rty = parse_type(subst_unit.get(callee.ret, callee.ret))
    if any(t in subst_unit for t in re.findall(r"\w+", callee.ret)) and callee.ret not in subst_unit:
        raise Untranslatable(f"{tr.spec.lean}: result type `{callee.ret}` of {callee.lean} with an absent callback")
    n = tr.bindname()
    fuel = "fuel " if callee.fuel else ""
    if caps is None:
        steps.append(f"Py.bind ({callee.lean} {' '.join(cbcodes)} {fuel}{' '.join(codes)} v.cbs) fun {n} => let v := {{ v with cbs := {n}.1 }};")
    else:
        st = list(caps) + (["cbs"] if with_cbs else [])
        st0 = "(" + ", ".join(f"v.{lname(c)}" for c in st) + ")" if st else "()"
        back = ", ".join(f"{lname(c)} := {proj(n + '.1', k, len(st))}" for k, c in enumerate(st))
        upd = f" let v := {{ v with {back} }};" if st else ""
        steps.append(f"Py.bind (Py.unwrapCb ({callee.lean} {' '.join(cbcodes)} {fuel}{' '.join(codes)} (some {st0}))) fun {n} =>{upd}")
    return steps, f"{n}.2", rty


EXPR_HOOKS.append(_h_call_with_callbacks)


# ============================================================================ the specs =======================================================
_TF = "AlgoTravFront"
_BASE = "swcgeom/core/swc_utils/base.py"
_E = ("(enter : σ → Int → Option T → σ × T)", 2, "T")
_L = ("(leave : σ → Int → List K → σ × K)", 2, "K")
_TOPO = "(List Int) × (List Int)"
INSTANCES["_traverse_dfs"] = ["traverse_dfs"]
INSTANCES["traverse"] = []
TREE_INSTANCES["traverse"] = []

spec(lean="tf_swc_len", module=_TF, file="swcgeom/core/swc.py", cls="SWCLike", func="__len__", tree_method="__len__",
     params=["ids"], vars={"ids": "List Int"}, ret="Int", tree_cols={"self": {"id": "ids"}},
     doc="`swcgeom/core/swc.py::SWCLike.__len__` (the tree is its id column)")
spec(lean="tree_getitem", module=_TF, file=_TREE, cls="Tree", func="__getitem__", tree_method="__getitem__",
     params=["ids", "key"], vars={"ids": "List Int", "key": "Int", "length": "Int"}, ret="Node@self", tree_cols={"self": {"id": "ids"}},
     doc="`swcgeom/core/tree.py::Tree.__getitem__` for an integer key (the tree is its id column; the node handle returned is the row index)")

# the closure `fn_wrapped` that `wrap(fn)` returns, as `_traverse_dfs` calls it: with one further positional argument and no keyword
spec(lean="tree_wrapped_enter", module=_TF, file=_TREE, cls="Tree", func="traverse", nested="fn_wrapped", params=["idx", "pre"], tparams=["σ", "T"],
     callbacks={"fn": ("(fn : σ → Int → Option T → σ × T)", 2, "T")}, captures=["ids"], tree_cols={"self": {"id": "ids"}},
     vars={"idx": "Int", "pre": "Option T", "ids": "List Int"}, ret="T",
     doc=f"`{_TREE}::Tree.traverse`, the closure `fn_wrapped` of `wrap(enter)`, called as `enter(idx, pre)`")
VARKW["tree_wrapped_enter"] = {"args": ["pre"], "kwargs": []}
spec(lean="tree_wrapped_leave", module=_TF, file=_TREE, cls="Tree", func="traverse", nested="fn_wrapped", params=["idx", "children"], tparams=["σ", "K"],
     callbacks={"fn": ("(fn : σ → Int → List K → σ × K)", 2, "K")}, captures=["ids"], tree_cols={"self": {"id": "ids"}},
     vars={"idx": "Int", "children": "List K", "ids": "List Int"}, ret="K",
     doc=f"`{_TREE}::Tree.traverse`, the closure `fn_wrapped` of `wrap(leave)`, called as `leave(idx, children)`")
VARKW["tree_wrapped_leave"] = {"args": ["children"], "kwargs": []}

for _cb, _tp, _cbs, _ab, _ret in (("e", ["σ", "T"], {"enter": _E}, ["leave"], "Unit"), ("l", ["σ", "K"], {"leave": _L}, ["enter"], "K"),
                                  ("el", ["σ", "T", "K"], {"enter": _E, "leave": _L}, [], "K")):
    for _r in ("", "_r"):
        _root = ["root"] if _r else []
        _rv = {"root": "Int"} if _r else {}
        # swc_utils.traverse(topology, <callbacks>[, root=…])
        spec(lean=f"traverse_{_cb}{_r}", module=_TF, file=_BASE, func="traverse", params=["topology"] + _root, tparams=_tp, callbacks=_cbs, absent=_ab,
             vars=dict({"topology": _TOPO, "mode": "String"}, **_rv), ret=_ret, fuel=True,
             doc=f"`{_BASE}::traverse`, called with the keywords {list(_cbs) + _root} (`mode` left at its default)")
        VARKW[f"traverse_{_cb}{_r}"] = {"kwargs": list(_cbs) + _root}
        INSTANCES["traverse"].append(f"traverse_{_cb}{_r}")
        # Tree.traverse(<callbacks>[, root=…])
        spec(lean=f"tree_traverse_{_cb}{_r}", module=_TF, file=_TREE, cls="Tree", func="traverse", params=["ids", "pids"] + _root, tparams=_tp,
             callbacks=_cbs, absent=_ab, closures={"wrap": "(closure factory)"}, tree_cols={"self": {"id": "ids", "pid": "pids"}},
             vars=dict({"ids": "List Int", "pids": "List Int", "topology": _TOPO}, **_rv), ret=_ret, fuel=True,
             doc=f"`{_TREE}::Tree.traverse`, called with the keywords {list(_cbs) + _root} (the tree is its columns `ids`, `pids`)")
        VARKW[f"tree_traverse_{_cb}{_r}"] = {"kwargs": _root}
        FACTORY_INST[f"tree_traverse_{_cb}{_r}"] = {"enter": "tree_wrapped_enter", "leave": "tree_wrapped_leave"}
        TREE_INSTANCES["traverse"].append(f"tree_traverse_{_cb}{_r}")
    # Tree.Node.traverse(<callbacks>)
    spec(lean=f"node_traverse_{_cb}", module=_TF, file=_TREE, cls="Tree.Node", func="traverse", params=["ids", "pids", "self"], tparams=_tp,
         callbacks=_cbs, absent=_ab, tree_cols={"self.attach": {"id": "ids", "pid": "pids"}},
         vars={"ids": "List Int", "pids": "List Int", "self": "Node@self.attach"}, ret=_ret, fuel=True,
         doc=f"`{_TREE}::Tree.Node.traverse`, called with the keywords {list(_cbs)} (the node is its row index, its tree the columns `ids`, `pids`)")
    VARKW[f"node_traverse_{_cb}"] = {"kwargs": list(_cbs)}

