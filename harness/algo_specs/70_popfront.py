# C19 (T10 `popfront`): the FRONT END of swcgeom/core/population.py  ->  Gen/AlgoPopFront.lean (imports Gen/AlgoPopulation.lean)
#   Population.__init__ (the overload `Population(trees: Trees, /, *, root="")`), Population.__getitem__ (int / slice), __len__, __iter__,
#   NestTrees.__init__ / __getitem__ / __len__ over a lazy container, Populations.__init__ / __getitem__ / __len__ / to_population,
#   LazyLoadingTrees.__init__, the file matching of Populations.from_swc.
#
# A Python class whose field holds "any `Trees`" is translated once per container it is used with (struct INSTANTIATIONS of one class: the spec
# names the class in `cls` and the instantiation in the type of `self`):
#   Population      trees : LazyLoadingTrees      (what `Population.from_swc` / `Populations.from_swc` build)
#   PopList         trees : List Int              (a plain Python list of trees: it satisfies the `Trees` protocol)
#   PopChain        trees : ChainTrees            (what `Populations.to_population` returns)
#   NestLazy        = NestTrees(trees : LazyLoadingTrees, idx)       (what `Population[a:b:c]` returns)
#   Populations     populations : List Population ;   PopulationsL   populations : List PopList
#
# GENERAL translator extensions (hooks; nothing is keyed on a function name):
#   * method dispatch by the DECLARED type of the receiver: `x[k]`, `len(x)`, `x.m(a)` where `x` is a variable or a field of a variable holding a
#     translated class -> the translated `__getitem__` / `__len__` / `m` of that class (the object the callee updates is written back to `x`,
#     the callback state to `v.cbs`); `C(args)` / `cls(args)` -> the translated `__init__` of the instantiation whose first parameter has the type
#     of the first argument (omitted parameters take the defaults read from the callee's source; `**kwargs` forwarded to the file reader are part
#     of the `read` callback)
#   * `isinstance(x, T)` decided by the declared type of `x` (the definition is the specialisation to one @overload signature): `x` is still
#     evaluated (its effects happen), only the branch that runs is translated
#   * `if A and B:` where evaluating `B` changes the state, or `B` is an `isinstance` decided by the declared type: `if A: (if B: body else: orelse) else: orelse`
#   * `for x in xs` (also inside a comprehension) over a list of OBJECTS of a translated class held in a variable / a field: the loop variable is
#     an alias of the element, so the loop is lowered to an index loop that writes `x` back to `xs[k]` after the body
#   * `s.indices(n)` of a slice (`Py.PF.sliceIndices`, CPython's clamping), `range(*triple)` (`Py.PF.range3`), `a.intersection(b)` on sets,
#     `functools.reduce(lambda a, b: E, xs)` with a pure `E`, `min(...)` / `all(...)` of a lowered generator
#
# TRUSTED GLUE (source text replaced by its meaning on the modelled data; a change of the text makes the key miss = translator failure):
#   skip_stmts  super().__init__()                      (object.__init__)
#               self.kwargs = kwargs                    (LazyLoadingTrees.__init__: the keyword arguments of Tree.from_swc live in the `read` callback)
#   subst       Population.find_swcs(d, ext=ext, relpath=True) -> `find_swcs v.d`   (pure function parameter: the relative names found under a root)
#               os.path.join(d, p)                      -> `join v.d v.p`           (pure function parameter: the file a root and a relative name designate)
#   absent      labels                                   (Populations.__init__ / from_swc are specialised to `labels=None`)
#   stmt_subst  labels = list(labels) if labels is not None else ['' for i in populations]  ->  labels = ['' for i in populations]     (`labels=None`)
MODULE_IMPORTS["AlgoPopFront"] = ["AlgoPopulation"]
MODULE_MODEL_IMPORTS["AlgoPopFront"] = ["PyPopFront"]
STRUCTS["Population"] = {"trees": "LazyLoadingTrees", "root": "String"}
STRUCTS["PopList"] = {"trees": "List Int", "root": "String"}
STRUCTS["PopChain"] = {"trees": "ChainTrees", "root": "String"}
STRUCTS["NestLazy"] = {"trees": "LazyLoadingTrees", "idx": "List Int"}
STRUCTS["Populations"] = {"len": "Int", "populations": "List Population", "labels": "List String"}
STRUCTS["PopulationsL"] = {"len": "Int", "populations": "List PopList", "labels": "List String"}
MODULE_STRUCTS["AlgoPopFront"] = ["Population", "PopList", "PopChain", "NestLazy", "Populations", "PopulationsL"]

POPF_METHODS = {}     # (struct type, method name) -> lean name, or {key type text -> lean name} for an overloaded `__getitem__`
POPF_CTORS = {}       # python class name -> [lean names of its translated `__init__` instantiations]
POPF_METHODS[("LazyLoadingTrees", "__getitem__")] = "lazy_getitem"
POPF_METHODS[("LazyLoadingTrees", "__len__")] = "lazy_len"
POPF_METHODS[("LazyLoadingTrees", "load")] = "lazy_load"
POPF_METHODS[("ChainTrees", "__getitem__")] = "chain_getitem"
POPF_METHODS[("ChainTrees", "__len__")] = "chain_len"
POPF_CTORS["ChainTrees"] = ["chain_init"]


def _popf_static_type(tr, e):
    """declared type of a variable / of a field of a variable holding a record; None for anything else"""
    if isinstance(e, ast.Name):
        return tr.vars.get(e.id, tr.extra_vars.get(e.id))
    if isinstance(e, ast.Attribute) and isinstance(e.value, ast.Name):
        t = tr.vars.get(e.value.id)
        if isinstance(t, str) and t in STRUCTS and e.attr in STRUCTS[t]:
            return parse_type(STRUCTS[t][e.attr])
    return None


def _popf_invoke(tr, lean, recv, steps, codes):
    """call of the translated method / constructor `lean`; `recv` = the receiver expression (None for a constructor: a fresh object).
    Returns (steps, code of the result, type of the result)"""
    callee = by_lean_global[lean]
    if callee.fuel and not tr.spec.fuel:
        raise Untranslatable(f"{tr.spec.lean} calls {callee.lean} which needs fuel")
    if callee.callbacks and callee.callbacks != tr.spec.callbacks:
        raise Untranslatable(f"{tr.spec.lean}: call of {callee.lean} with different callbacks")
    outs = [o for o in callee.out]
    if any(o != "self" for o in outs):
        raise Untranslatable(f"{tr.spec.lean}: {callee.lean} updates `{outs}`")
    if any(b not in tr.spec.fparams for b in callee.fparams):
        raise Untranslatable(f"{tr.spec.lean}: call of {callee.lean} with other function parameters")
    cbargs = [b.split()[0].strip("(") for b, _, _ in callee.callbacks.values()] + [b.split()[0].strip("(") for b in callee.fparams]
    head = callee.lean + "".join(" " + a for a in cbargs) + (" fuel" if callee.fuel else "")
    if recv is None:
        call = f"{head} default {' '.join(codes)}"
    else:
        s0, rc, _ = tr.tr(recv)
        steps = list(s0) + steps
        call = f"{head} {rc} {' '.join(codes)}"
    if callee.callbacks:
        call += " v.cbs"
    n = tr.bindname()
    k = len(outs) + (1 if callee.callbacks else 0) + 1
    back = ""
    j = 0
    if outs:
        if recv is not None:
            back += f" let v := {tr.lvalue(recv)(proj(n, 0, k))};"
        j = 1
    if callee.callbacks:
        back += f" let v := {{ v with cbs := {proj(n, j, k)} }};"
    steps = steps + [f"Py.bind ({call.strip()}) fun {n} =>{back}"]
    if recv is None:
        return steps, proj(n, 0, k), callee.vars["self"]
    return steps, proj(n, k - 1, k), parse_type(callee.ret)


def _popf_args(tr, callee, args, kw, first):
    """codes of the arguments of `callee.params[first:]`: positional, keyword, then the defaults read from the callee's source"""
    steps, codes, types = [], [], []
    names = callee.params[first:]
    for k, pn in enumerate(names):
        x = args[k] if k < len(args) else kw.get(pn, fn_defaults(callee).get(pn))
        if x is None:
            raise Untranslatable(f"{tr.spec.lean}: no value for `{pn}` of {callee.lean}")
        pt = parse_type(callee.vars[pn])
        s, c, t = tr.tr(x, pt)
        if t != pt and show_type(t) != show_type(pt):
            c = tr.coerce(c, t, pt)
        steps += s; codes.append(c); types.append(t)
    if len(args) > len(names):
        raise Untranslatable(f"{tr.spec.lean}: too many arguments for {callee.lean}")
    return steps, codes, types


def _popf_isinstance_static(tr, e):
    """`isinstance(x, T)` decided by the declared / inferred type of `x`: (steps of x, truth) or None"""
    if not (isinstance(e, ast.Call) and ast.unparse(e.func) == "isinstance" and len(e.args) == 2):
        return None
    s, c, t = tr.tr(e.args[0])
    T = ast.unparse(e.args[1])
    table = {"str": "String", "slice": "Py.PF.Slice", "int": "Int", "(int, np.integer)": "Int"}
    if T not in table:
        raise Untranslatable(f"{tr.spec.lean}: `{ast.unparse(e)}`")
    return s, (t == table[T])


def popf_expr_hook(tr, e, want):
    # isinstance(x, T)
    if isinstance(e, ast.Call) and ast.unparse(e.func) == "isinstance":
        r = _popf_isinstance_static(tr, e)
        if r is not None:
            return r[0], ("true" if r[1] else "false"), "Bool"
    # len(x) of an object of a translated class
    if isinstance(e, ast.Call) and ast.unparse(e.func) == "len" and len(e.args) == 1 and not e.keywords:
        t = _popf_static_type(tr, e.args[0])
        if isinstance(t, str) and (t, "__len__") in POPF_METHODS and f"{ast.unparse(e)}#{tr.spec.cls}" not in tr.table:
            return _popf_invoke(tr, POPF_METHODS[(t, "__len__")], e.args[0], [], [])
    # x.m(args) on an object of a translated class
    if isinstance(e, ast.Call) and isinstance(e.func, ast.Attribute):
        t = _popf_static_type(tr, e.func.value)
        if (isinstance(t, str) and (t, e.func.attr) in POPF_METHODS and not isinstance(POPF_METHODS[(t, e.func.attr)], dict)
                and ast.unparse(e.func) not in tr.table):
            callee = by_lean_global[POPF_METHODS[(t, e.func.attr)]]
            s, codes, _ = _popf_args(tr, callee, e.args, {k.arg: k.value for k in e.keywords if k.arg}, 1)
            return _popf_invoke(tr, callee.lean, e.func.value, s, codes)
        # a.intersection(b) on sets
        if e.func.attr == "intersection" and len(e.args) == 1 and not e.keywords:
            s1, a, ta = tr.tr(e.func.value)
            s2, b, tb = tr.tr(e.args[0])
            if isinstance(ta, tuple) and ta[0] == "Set" and isinstance(tb, tuple) and tb[0] == "Set" and ta[1] == tb[1]:
                return s1 + s2, f"(Py.Set.inter {a} {b})", ta
        # s.indices(n) of a slice
        if e.func.attr == "indices" and len(e.args) == 1 and not e.keywords:
            s1, a, ta = tr.tr(e.func.value)
            if ta == "Py.PF.Slice":
                s2, b, tb = tr.tr(e.args[0])
                if tb == "Int":
                    n = tr.bindname()
                    return s1 + s2 + [f"Py.bind (Py.PF.sliceIndices {a} {b}) fun {n} =>"], n, ("Prod", "Int", ("Prod", "Int", "Int"))
    # range(*triple)
    if (isinstance(e, ast.Call) and ast.unparse(e.func) == "range" and len(e.args) == 1 and isinstance(e.args[0], ast.Starred) and not e.keywords):
        s, c, t = tr.tr(e.args[0].value)
        if t == ("Prod", "Int", ("Prod", "Int", "Int")):
            n = tr.bindname()
            return s + [f"Py.bind (Py.PF.range3 {c}) fun {n} =>"], n, ("List", "Int")
    # C(args) / cls(args): the translated __init__ of the instantiation selected by the type of the first argument
    if isinstance(e, ast.Call) and isinstance(e.func, ast.Name):
        cname = tr.spec.cls if (e.func.id == "cls" and tr.spec.cls) else e.func.id
        if cname in POPF_CTORS and e.args:
            kw = {k.arg: k.value for k in e.keywords if k.arg}          # `**kwargs` (forwarded to the file reader) is not an argument of the model
            save, n_aux, n_loop = tr.tmp, len(tr.aux), tr.nloop          # scratch translation: learn the type of the first argument
            s0, c0, t0 = tr.tr(e.args[0])
            tr.tmp, tr.nloop = save, n_loop
            del tr.aux[n_aux:]
            for lean in POPF_CTORS[cname]:
                callee = by_lean_global[lean]
                pt = parse_type(callee.vars[callee.params[1]])
                if show_type(pt) == show_type(t0):
                    kw = {k: x for k, x in kw.items() if k not in callee.absent}
                    if any(k not in callee.params for k in kw):
                        raise Untranslatable(f"{tr.spec.lean}: keyword in `{ast.unparse(e)}`")
                    s, codes, _ = _popf_args(tr, callee, e.args, kw, 1)
                    return _popf_invoke(tr, lean, None, s, codes)
            raise Untranslatable(f"{tr.spec.lean}: no instantiation of `{cname}` takes {t0}")
    # x[k] on an object of a translated class
    if isinstance(e, ast.Subscript) and isinstance(e.ctx, ast.Load) and not isinstance(e.slice, (ast.Slice, ast.Tuple)):
        t = _popf_static_type(tr, e.value)
        if isinstance(t, str) and (t, "__getitem__") in POPF_METHODS:
            m = POPF_METHODS[(t, "__getitem__")]
            s, k, tk = tr.tr(e.slice)
            if isinstance(m, dict):
                if show_type(tk) not in m:
                    raise Untranslatable(f"{tr.spec.lean}: `{ast.unparse(e)}` with a key of type {tk}")
                m = m[show_type(tk)]
            return _popf_invoke(tr, m, e.value, s, [k])
    # functools.reduce(lambda a, b: E, xs) with a pure E
    if (isinstance(e, ast.Call) and ast.unparse(e.func) in ("reduce", "functools.reduce") and len(e.args) == 2 and isinstance(e.args[0], ast.Lambda)
            and len(e.args[0].args.args) == 2 and not e.keywords):
        lam = e.args[0]
        a, b = (x.arg for x in lam.args.args)
        s, xs, t = tr.tr(e.args[1])
        et = tr.elem_type(t)
        for nm in (a, b):
            if tr.vars.get(nm, et) != et:
                raise Untranslatable(f"{tr.spec.lean}: lambda parameter `{nm}` shadows a variable of another type")
            tr.vars.setdefault(nm, et)
        sb, body, tb = tr.tr(lam.body)
        if sb or show_type(tb) != show_type(et):
            raise Untranslatable(f"{tr.spec.lean}: `{ast.unparse(e)}` (the lambda must be pure and keep the type)")
        n = tr.bindname()
        fn = f"(fun a_ b_ => let v := {{ v with {lname(a)} := a_, {lname(b)} := b_ }}; {body})"
        return s + [f"Py.bind (Py.reduce1 {fn} {xs}) fun {n} =>"], n, tb
    # list(s) of a set: its members in iteration order (unspecified in Python; here the order of the model of sets)
    if isinstance(e, ast.Call) and ast.unparse(e.func) == "list" and len(e.args) == 1 and not e.keywords:
        save = tr.tmp
        try:
            s, c, t = tr.tr(e.args[0])
        except Untranslatable:
            t = None
        if isinstance(t, tuple) and t[0] == "Set":
            return s, c, ("List", t[1])
        tr.tmp = save
    # min(...) / all(...) of a list / lowered generator
    if isinstance(e, ast.Call) and ast.unparse(e.func) in ("min", "all") and len(e.args) == 1 and not e.keywords:
        s, c, t = tr.tr(e.args[0])
        if ast.unparse(e.func) == "min" and t == ("List", "Int"):
            n = tr.bindname()
            return s + [f"Py.bind (Py.minInt {c}) fun {n} =>"], n, "Int"
        if ast.unparse(e.func) == "all" and t == ("List", "Bool"):
            return s, f"(Py.allB {c})", "Bool"
    return None


def _popf_changes_state(tr, x):
    save, n_aux, n_loop = tr.tmp, len(tr.aux), tr.nloop
    try:
        s, _, _ = tr.tr(x)
    finally:
        tr.tmp, tr.nloop = save, n_loop
        del tr.aux[n_aux:]
    return any(not st.startswith("Py.bind (") or "let v :=" in st for st in s)


def _popf_mutated_through(tr, var, nodes):
    """does the loop body call a method that updates its receiver, or index (`x[k]` may load), on the loop variable `var`?"""
    for n in nodes:
        if isinstance(n, ast.Subscript) and isinstance(n.value, ast.Name) and n.value.id == var:
            return True
        if isinstance(n, ast.Call) and isinstance(n.func, ast.Attribute) and isinstance(n.func.value, ast.Name) and n.func.value.id == var:
            return True
    return False


def popf_stmt_hook(tr, s):
    if (isinstance(s, ast.Assign) and len(s.targets) == 1 and isinstance(s.targets[0], ast.Attribute) and isinstance(s.value, ast.ListComp)):
        # `self.f = [… for …]`: the elements have the declared element type of the field (`None` in a list of optional trees)
        ft = _popf_static_type(tr, s.targets[0])
        if ft is not None:
            st, c, t = tr.tr(s.value, ft)
            if show_type(t) == show_type(ft):
                return tr.chain(st, ".next " + tr.lvalue(s.targets[0])(c))
    if isinstance(s, ast.If):
        # isinstance decided by the declared type: only the branch that runs is translated (the tested expression is still evaluated)
        r = _popf_isinstance_static(tr, s.test)
        if r is not None:
            steps, truth = r
            live = s.body if truth else s.orelse
            blk = tr.block(live) if live else "Py.skip"
            return tr.chain(steps, f"{blk} v") if steps else blk
        # `if A and B:` with a state-changing B
        if (isinstance(s.test, ast.BoolOp) and isinstance(s.test.op, ast.And) and len(s.test.values) == 2
                and ((isinstance(s.test.values[1], ast.Call) and ast.unparse(s.test.values[1].func) == "isinstance")
                     or _popf_changes_state(tr, s.test.values[1]))):
            inner = ast.If(s.test.values[1], s.body, s.orelse)
            outer = ast.If(s.test.values[0], [inner], s.orelse)
            for nd in (inner, outer):
                ast.copy_location(nd, s)
            return tr.s_If(outer)
    if isinstance(s, ast.For) and not s.orelse and isinstance(s.target, ast.Name) and not getattr(s, "_popf_lowered", False):
        # a loop over a list of objects whose body calls methods on the loop variable: the variable aliases the element
        tl = _popf_static_type(tr, s.iter)
        if isinstance(tl, tuple) and tl[0] == "List" and isinstance(tl[1], str) and tl[1] in STRUCTS:
            nodes = [n for b in s.body for n in ast.walk(b)]
            x = s.target.id
            if _popf_mutated_through(tr, x, nodes):
                arr = ast.unparse(s.iter)
                root = s.iter.id if isinstance(s.iter, ast.Name) else s.iter.value.id
                if any(isinstance(n, ast.Name) and isinstance(n.ctx, ast.Store) and n.id in (x, root) for n in nodes):
                    raise Untranslatable(f"{tr.spec.lean}: the loop body rebinds `{x}` / `{root}`")
                if any(isinstance(n, (ast.Break, ast.Continue, ast.Return, ast.FunctionDef, ast.Lambda)) for n in nodes):
                    raise Untranslatable(f"{tr.spec.lean}: early exit from a loop over the objects of `{arr}`")
                if any(ast.unparse(n) == arr for n in nodes if isinstance(n, (ast.Name, ast.Attribute))):
                    raise Untranslatable(f"{tr.spec.lean}: the loop body mentions `{arr}` while using its elements through `{x}`")
                k = tr.fresh("Int", "k")
                if x not in tr.vars:
                    tr.vars[x] = tl[1]
                read = ast.parse(f"{x} = {arr}[{k}]").body[0]
                back = ast.parse(f"{arr}[{k}] = {x}").body[0]
                loop = ast.For(ast.Name(k, ast.Store()), ast.parse(f"range(len({arr}))").body[0].value, [read] + list(s.body) + [back], [], None)
                for nd in ast.walk(loop):
                    if not hasattr(nd, "lineno"):
                        nd.lineno = nd.col_offset = nd.end_lineno = nd.end_col_offset = 0
                loop._popf_lowered = True
                return tr.s_For_plain(loop)
    return None


EXPR_HOOKS.append(popf_expr_hook)
STMT_HOOKS.append(popf_stmt_hook)

_POP = "swcgeom/core/population.py"
_READ = {"Tree.from_swc": ("(read : σ → Int → σ × Int)", 1, "Int")}


def _popf(lean, cls, func, self_t, methods=(), ctor=False, **kw):
    kw.setdefault("module", "AlgoPopFront")
    kw.setdefault("file", _POP)
    kw["vars"] = dict({"self": self_t} if self_t else {}, **kw.get("vars", {}))
    f = spec(lean=lean, cls=cls, func=func, **kw)
    if ctor:
        POPF_CTORS.setdefault(cls, []).append(lean)
    return f


# --- LazyLoadingTrees.__init__
_popf("lazy_init", "LazyLoadingTrees", "__init__", "LazyLoadingTrees", ctor=True, params=["self", "swcs"], vars={"swcs": "List Int"},
      out=["self"], skip_stmts=["super().__init__()", "self.kwargs = kwargs"])

# --- NestTrees over a lazy container
_popf("nestl_init", "NestTrees", "__init__", "NestLazy", ctor=True, params=["self", "trees", "idx"],
      vars={"trees": "LazyLoadingTrees", "idx": "List Int"}, out=["self"], skip_stmts=["super().__init__()"])
_popf("nestl_getitem", "NestTrees", "__getitem__", "NestLazy", params=["self", "key"], vars={"key": "Int"}, ret="Option Int", out=["self"],
      tparams=["σ"], callbacks=_READ)
_popf("nestl_len", "NestTrees", "__len__", "NestLazy", params=["self"], ret="Int")
POPF_METHODS[("NestLazy", "__getitem__")] = "nestl_getitem"
POPF_METHODS[("NestLazy", "__len__")] = "nestl_len"

# --- Population over a lazy container
_PINIT_SKIP = ["super().__init__()"]
_popf("pop_init", "Population", "__init__", "Population", ctor=True, params=["self", "swcs", "root"],
      vars={"swcs": "LazyLoadingTrees", "root": "String", "trees": "LazyLoadingTrees", "warnings_": "List Int"}, out=["self"],
      tparams=["σ"], callbacks=_READ, skip_stmts=_PINIT_SKIP,
      doc="`swcgeom/core/population.py::Population.__init__`, overload `Population(trees, /, *, root)` with a `LazyLoadingTrees` (the test "
          "`isinstance(swcs[0], str)` indexes the container: the probe of file 0; a tree is not a `str`, so the deprecated branch does not run)")
_popf("pop_len", "Population", "__len__", "Population", params=["self"], ret="Int")
_popf("pop_getitem_int", "Population", "__getitem__", "Population", params=["self", "key"], vars={"key": "Int"}, ret="Option Int", out=["self"],
      tparams=["σ"], callbacks=_READ, doc="`swcgeom/core/population.py::Population.__getitem__`, overload `key: int`")
_popf("pop_getitem_slice", "Population", "__getitem__", "Population", params=["self", "key"], vars={"key": "Py.PF.Slice", "trees": "NestLazy"},
      ret="NestLazy", doc="`swcgeom/core/population.py::Population.__getitem__`, overload `key: slice` (`slice(a, b, c)` with each field an int or None)")
POPF_METHODS[("Population", "__len__")] = "pop_len"
POPF_METHODS[("Population", "__getitem__")] = {"Int": "pop_getitem_int", "Py.PF.Slice": "pop_getitem_slice"}
_popf("pop_iter", "Population", "__iter__", "Population", params=["self"], vars={"i": "Int"}, ret="List (Option Int)", out=["self"],
      tparams=["σ"], callbacks=_READ,
      doc="`swcgeom/core/population.py::Population.__iter__` consumed to the end (the generator it returns, as the list of what it yields)")

# --- Population over a plain list of trees / over a chain (for `to_population`)
_popf("popl_init", "Population", "__init__", "PopList", ctor=True, params=["self", "swcs", "root"],
      vars={"swcs": "List Int", "root": "String", "trees": "List Int", "warnings_": "List Int"}, out=["self"], skip_stmts=_PINIT_SKIP,
      doc="`swcgeom/core/population.py::Population.__init__`, overload `Population(trees, /, *, root)` with a plain list of trees")
_popf("popc_init", "Population", "__init__", "PopChain", ctor=True, params=["self", "swcs", "root"], fuel=True,
      vars={"swcs": "ChainTrees", "root": "String", "trees": "ChainTrees", "warnings_": "List Int"}, out=["self"], skip_stmts=_PINIT_SKIP,
      doc="`swcgeom/core/population.py::Population.__init__`, overload `Population(trees, /, *, root)` with a `ChainTrees` (over members that are lists of trees)")
_popf("popc_len", "Population", "__len__", "PopChain", params=["self"], ret="Int")
_popf("popc_getitem_int", "Population", "__getitem__", "PopChain", params=["self", "key"], vars={"key": "Int"}, ret="Int", fuel=True,
      doc="`swcgeom/core/population.py::Population.__getitem__`, overload `key: int`, on a chained population")

# --- Populations
_popf("pops_init", "Populations", "__init__", "Populations", ctor=True, params=["self", "populations"], absent=["labels"],
      stmt_subst={"labels = list(labels) if labels is not None else ['' for i in populations]": "labels = ['' for i in populations]"},
      vars={"populations": "List Population", "p": "Population", "i": "Population", "labels": "List String"}, out=["self"],
      doc="`swcgeom/core/population.py::Populations.__init__` with `labels=None`")
_popf("pops_len", "Populations", "__len__", "Populations", params=["self"], ret="Int")
_popf("pops_getitem", "Populations", "__getitem__", "Populations", params=["self", "key"], vars={"key": "Int", "p": "Population"},
      ret="List (Option Int)", out=["self"], tparams=["σ"], callbacks=_READ,
      doc="`swcgeom/core/population.py::Populations.__getitem__`, overload `key: int`: the row of trees")
_popf("popsl_to_population", "Populations", "to_population", "PopulationsL", params=["self"], vars={"p": "PopList"}, ret="PopChain", fuel=True,
      doc="`swcgeom/core/population.py::Populations.to_population` over populations that hold plain lists of trees")
_popf("pops_from_swc", "Populations", "from_swc", None, fuel=False, params=["roots", "intersect", "check_same"], absent=["labels"],
      fparams=["(find_swcs : String → List Int)", "(join : String → Int → Int)"],
      vars={"roots": "List String", "intersect": "Bool", "check_same": "Bool", "fs": "List (List Int)", "inter": "List Int", "d": "String",
            "p": "Int", "i": "Int", "a": "List Int", "b": "List Int", "underscore": "String", "populations": "List Population", "warnings_": "List Int"},
      ret="Populations", tparams=["σ"], callbacks=_READ,
      subst={"Population.find_swcs(d, ext=ext, relpath=True)": ("(find_swcs v.d)", "List Int"),
             "os.path.join(d, p)": ("(join v.d v.p)", "Int")},
      doc="`swcgeom/core/population.py::Populations.from_swc` with `labels=None`: the file matching (`find_swcs` and `os.path.join` are pure function "
          "parameters: the relative names found under a root, the file a root and a relative name designate)")
_popf("popl_len", "Population", "__len__", "PopList", params=["self"], ret="Int")
POPF_METHODS[("PopList", "__len__")] = "popl_len"
_popf("popsl_init", "Populations", "__init__", "PopulationsL", ctor=True, params=["self", "populations"], absent=["labels"],
      stmt_subst={"labels = list(labels) if labels is not None else ['' for i in populations]": "labels = ['' for i in populations]"},
      vars={"populations": "List PopList", "p": "PopList", "i": "PopList", "labels": "List String"}, out=["self"],
      doc="`swcgeom/core/population.py::Populations.__init__` with `labels=None`, over populations that hold plain lists of trees")
