# C07 concatenation: `swcgeom/core/tree_utils.py::cat_tree` (Gen/AlgoCat.lean, importing Gen/AlgoRedirect).  Executed in the namespace of
# harness/translate_algo.py.
#
# GENERAL constructs added here through the extension hooks (none is keyed on a function name):
#   * `T.ndata[names.<col>]` of a tree that is column variables (`tree_cols`): the column variable, as a value and as the target of `=` / `-=` / `+=`;
#   * `np.concatenate([a, b, …])` of 1-d arrays = `a ++ b ++ …`;  `np.delete(a, idxs)` = `Py.delete` (Model/PyCat.lean: indices normalised as by
#     indexing, IndexError when out of range, the listed rows left out);
#   * a call `f(T, …, kw=…)` of a translated whole-tree function (`TREE_CALLEES`) with keyword arguments / defaults read from the callee's source,
#     the INSTANCE of the callee being chosen by the set of columns of `T` (`TREE_CALLEE_INSTANCES`); an instance over FEWER columns is used only
#     under the literal arguments listed in `TREE_CALLEE_FRAME` (under which the callee touches no other column);
#   * `T = f(T, …)` for such a function whose every `return` returns its tree: the columns of `T` are updated;
#   * `np.linalg.norm(A.xyz() - B.xyz()) < EPS` for two node handles: on INTEGER LATTICE coordinates (the modelled data) it is `squared distance = 0`;
#     the module-level `EPS` is read from the source and must satisfy 0 < EPS ≤ 1/128 (the lattice spacing of the protocol), else the translator fails.
#
# TRUSTED GLUE of this file (every entry replaces source text by its meaning on the modelled data; a change of the source text makes the key miss and
# the translator then FAILS on the unknown construct):
#   * the trees are their columns id, pid, type, x, y, z (`tree_cols`; the radius and extra columns are not modelled); `names = get_names(names)` and
#     `tree, tree2 = (tree1.copy(), tree2.copy())` are skipped (the parameters ARE the columns of the two copies); `return tree` returns the columns (`out`);
#   * the legacy parameter `no_move` is absent (`absent`): the definition is the specialisation to callers that do not pass it;
#   * the two loops over `tree.ndata.items()` are the same statement for each of the six modelled columns, all of which `tree2` has too (so the
#     `np.pad` branch is not taken for a modelled column);
#   * `_sort_tree` for six columns: the gather `tree.ndata[k][id_map]` for each of the six columns, then the two topology columns replaced (as the
#     three-column instance of translate_algo.py);
#   * the junction test (above) is the one piece of geometry glue; `redirect_tree`'s three-column instance is applied to the six-column `tree2` under the
#     literal `sort=False` (TREE_CALLEE_FRAME: without the final `_sort_tree` it touches `pid` and `type` only — any other column access in its source makes
#     ITS translation fail, since its `tree_cols` has no such column).
MODULE_IMPORTS["AlgoCat"] = ["AlgoRedirect"]
MODULE_MODEL_IMPORTS["AlgoCat"] = ["PyCat"]

TREE_CALLEE_INSTANCES = globals().get("TREE_CALLEE_INSTANCES", {})   # python callee text -> lean names of further translations of it (other column sets)
TREE_CALLEE_FRAME = globals().get("TREE_CALLEE_FRAME", {})           # lean name -> {parameter: literal source text} under which the instance touches only its own columns


def _ndata_col(tr, e):
    """the column variable `T.ndata[names.<col>]` denotes when `T` is a tree that is column variables, else None"""
    if (isinstance(e, ast.Subscript) and isinstance(e.value, ast.Attribute) and e.value.attr == "ndata"
            and ast.unparse(e.value.value) in tr.spec.tree_cols and isinstance(e.slice, ast.Attribute)
            and isinstance(e.slice.value, ast.Name) and e.slice.value.id == "names"):
        cols = tr.spec.tree_cols[ast.unparse(e.value.value)]
        if e.slice.attr not in cols:
            raise Untranslatable(f"{tr.spec.lean}: column `{ast.unparse(e)}` is not modelled")
        return cols[e.slice.attr]
    return None


def _h_ndata_load(tr, e, want):
    col = _ndata_col(tr, e)
    if col is None:
        return None
    return [], f"v.{lname(col)}", tr.var_type(col)


def _h_ndata_store(tr, s):
    if isinstance(s, ast.Assign) and len(s.targets) == 1:
        tgt, val = s.targets[0], s.value
    elif isinstance(s, ast.AugAssign):
        tgt = s.target
        load = ast.Subscript(tgt.value, tgt.slice, ast.Load()) if isinstance(tgt, ast.Subscript) else None
        val = ast.BinOp(load, s.op, s.value)
    else:
        return None
    col = _ndata_col(tr, tgt)
    if col is None:
        return None
    new = ast.Assign([ast.Name(col, ast.Store())], val)
    ast.copy_location(new, s); ast.fix_missing_locations(new)
    return tr.s_Assign(new)


def _h_concat_delete(tr, e, want):
    if not isinstance(e, ast.Call) or e.keywords:
        return None
    f = ast.unparse(e.func)
    if f == "np.concatenate" and len(e.args) == 1 and isinstance(e.args[0], ast.List) and len(e.args[0].elts) >= 2:
        steps, codes, tys = [], [], []
        for x in e.args[0].elts:
            s0, c, t = tr.tr(x)
            steps += s0; codes.append(c); tys.append(t)
        if not (isinstance(tys[0], tuple) and tys[0][0] == "List" and all(t == tys[0] for t in tys)):
            raise Untranslatable(f"{tr.spec.lean}: `{ast.unparse(e)}` on {tys}")
        return steps, "(" + " ++ ".join(codes) + ")", tys[0]
    if f == "np.delete" and len(e.args) == 2:
        s0, a, ta = tr.tr(e.args[0]); s1, i, ti = tr.tr(e.args[1])
        if not (isinstance(ta, tuple) and ta[0] == "List"):
            return None
        if ti == ("Option", ("List", "Int")):
            # the source passes a variable it has just tested `is not None`: a None here is unreachable, and is an error in the typed model
            n0 = tr.bindname()
            s1, i, ti = s1 + [f"Py.bind ({i}) fun {n0} =>"], n0, ("List", "Int")
        if ti == "Int":
            i, ti = f"[{i}]", ("List", "Int")
        if ti != ("List", "Int"):
            return None
        n = tr.bindname()
        return s0 + s1 + [f"Py.bind (Py.delete {a} {i}) fun {n} =>"], n, ta
    return None


def _module_float(tr, name):
    """the float a module-level name of the translated function's source file is bound to (a literal), else None"""
    p = REPO / tr.spec.file
    for nd in ast.parse(p.read_text()).body:
        if isinstance(nd, ast.Assign) and len(nd.targets) == 1 and isinstance(nd.targets[0], ast.Name) and nd.targets[0].id == name:
            try:
                val = ast.literal_eval(nd.value)
            except (ValueError, SyntaxError):
                return None
            return float(val) if isinstance(val, (int, float)) and not isinstance(val, bool) else None
    return None


def _h_junction(tr, e, want):
    """`np.linalg.norm(A.xyz() - B.xyz()) < EPS`, A and B node handles: squared lattice distance = 0"""
    if not (isinstance(e, ast.Compare) and len(e.ops) == 1 and isinstance(e.ops[0], ast.Lt) and isinstance(e.left, ast.Call)
            and ast.unparse(e.left.func) == "np.linalg.norm" and len(e.left.args) == 1 and not e.left.keywords
            and isinstance(e.comparators[0], ast.Name) and e.comparators[0].id not in tr.vars):
        return None
    d = e.left.args[0]
    if not (isinstance(d, ast.BinOp) and isinstance(d.op, ast.Sub)):
        return None
    sides = []
    for x in (d.left, d.right):
        if not (isinstance(x, ast.Call) and isinstance(x.func, ast.Attribute) and x.func.attr == "xyz" and not x.args and not x.keywords):
            return None
        sides.append(x.func.value)
    eps = _module_float(tr, e.comparators[0].id)
    if eps is None or not (0 < eps <= 2.0 ** -7):
        raise Untranslatable(f"{tr.spec.lean}: `{ast.unparse(e)}`: the threshold `{e.comparators[0].id}` = {eps} is not in (0, 1/128] "
                             "(on the integer lattice of the model the test must mean `distance = 0`)")
    steps, reads = [], []
    for x in sides:
        s0, c, t = tr.tr(x)
        if not is_node(t):
            return None
        cols = tr.spec.tree_cols.get(node_tree(t), {})
        if not {"x", "y", "z"} <= set(cols):
            raise Untranslatable(f"{tr.spec.lean}: `{ast.unparse(e)}` needs the columns x, y, z of `{node_tree(t)}`")
        steps += s0
        rd = []
        for k in ("x", "y", "z"):                      # `Node.xyz()` = np.array([self.x, self.y, self.z])
            n = tr.bindname()
            steps.append(f"Py.bind (Py.idx v.{lname(cols[k])} {c}) fun {n} =>")
            rd.append(n)
        reads.append(rd)
    sq = " + ".join(f"({a} - {b}) * ({a} - {b})" for a, b in zip(*reads))
    return steps, f"(decide ({sq} = 0))", "Bool"


def _tree_callee_for(tr, e):
    """(callee spec, normalised positional call) of a call `f(T, …)` of a translated whole-tree function on a tree that is column variables"""
    f = ast.unparse(e.func)
    if f not in TREE_CALLEE_INSTANCES:
        return None                                     # a function with ONE translation: the built-in rule of translate_algo.py applies
    cands = ([TREE_CALLEES[f]] if f in TREE_CALLEES else []) + [c for c in TREE_CALLEE_INSTANCES[f] if c != TREE_CALLEES.get(f)]
    if not cands or not e.args or ast.unparse(e.args[0]) not in tr.spec.tree_cols or any(k.arg is None for k in e.keywords):
        return None
    mine = set(tr.spec.tree_cols[ast.unparse(e.args[0])])
    pick = None
    for ln in cands:
        cal = by_lean_global[ln]
        (_, ccols), = cal.tree_cols.items()
        if set(ccols) == mine:
            pick = cal
            break
    subset = False
    if pick is None:
        for ln in cands:
            cal = by_lean_global[ln]
            (_, ccols), = cal.tree_cols.items()
            if set(ccols) < mine and ln in TREE_CALLEE_FRAME:
                pick, subset = cal, True
                break
    if pick is None:
        raise Untranslatable(f"{tr.spec.lean}: no translation of `{f}` for a tree with the columns {sorted(mine)}")
    (_, ccols), = pick.tree_cols.items()
    colvars = set(ccols.values())
    rest = [p for p in pick.params if p not in colvars]
    given = dict(zip(rest, e.args[1:]))
    if len(e.args) - 1 > len(rest):
        raise Untranslatable(f"{tr.spec.lean}: too many arguments in `{ast.unparse(e)}`")
    for k in e.keywords:
        if k.arg not in rest or k.arg in given:
            raise Untranslatable(f"{tr.spec.lean}: keyword `{k.arg}` in `{ast.unparse(e)}`")
        given[k.arg] = k.value
    dfl = fn_defaults(pick)
    for p in rest:
        if p not in given:
            if p not in dfl:
                raise Untranslatable(f"{tr.spec.lean}: `{ast.unparse(e)}` gives no value for `{p}`")
            given[p] = dfl[p]
    if subset:
        for p, lit in TREE_CALLEE_FRAME[pick.lean].items():
            if ast.unparse(given[p]) != lit:
                raise Untranslatable(f"{tr.spec.lean}: `{ast.unparse(e)}`: the translation of `{f}` over the columns {sorted(ccols)} may be applied "
                                     f"to a tree with further columns only with the literal `{p}={lit}`")
    new = ast.Call(e.func, [e.args[0]] + [given[p] for p in rest], [])
    ast.copy_location(new, e); ast.fix_missing_locations(new)
    return pick, new


def _h_tree_call(tr, e, want):
    if not isinstance(e, ast.Call):
        return None
    f = ast.unparse(e.func)
    if f not in TREE_CALLEES and f not in TREE_CALLEE_INSTANCES:
        return None
    r = _tree_callee_for(tr, e)
    if r is None:
        return None
    pick, new = r
    if TREE_CALLEES.get(f) == pick.lean and not e.keywords and len(new.args) == len(e.args):
        return None                                     # the built-in rule applies as it is
    old = TREE_CALLEES.get(f)
    TREE_CALLEES[f] = pick.lean
    try:
        return tr.e_Call(new, want)
    finally:
        if old is None:
            del TREE_CALLEES[f]
        else:
            TREE_CALLEES[f] = old


def _h_tree_rebind(tr, s):
    """`T = f(T, …)` where `f` is a translated whole-tree function that returns its (updated copy of the) tree"""
    if not (isinstance(s, ast.Assign) and len(s.targets) == 1 and isinstance(s.targets[0], ast.Name) and s.targets[0].id in tr.spec.tree_cols
            and isinstance(s.value, ast.Call) and s.value.args and isinstance(s.value.args[0], ast.Name)
            and s.value.args[0].id == s.targets[0].id):
        return None
    f = ast.unparse(s.value.func)
    if f not in TREE_CALLEES and f not in TREE_CALLEE_INSTANCES:
        return None
    r = _tree_callee_for(tr, s.value)
    if r is None:
        return None
    pick, _ = r
    p = REPO / pick.file
    fdef = find_def(ast.parse(p.read_text()), pick.cls, pick.func)
    rets = [n for n in ast.walk(fdef) if isinstance(n, ast.Return)]
    if not rets or any(n.value is None or ast.unparse(n.value) not in pick.tree_cols for n in rets):
        raise Untranslatable(f"{tr.spec.lean}: `{ast.unparse(s)}`: `{f}` does not return its tree on every path")
    ex = ast.Expr(s.value)
    ast.copy_location(ex, s); ast.fix_missing_locations(ex)
    return tr.s_Expr(ex)


for _h in (_h_ndata_load, _h_concat_delete, _h_junction, _h_tree_call):
    if _h.__name__ not in [h.__name__ for h in EXPR_HOOKS]:
        EXPR_HOOKS.append(_h)
for _h in (_h_ndata_store, _h_tree_rebind):
    if _h.__name__ not in [h.__name__ for h in STMT_HOOKS]:
        STMT_HOOKS.append(_h)


_CCOLS = {"id": "ids", "pid": "pids", "type": "types", "x": "xs", "y": "ys", "z": "zs"}
_CCOLS2 = {k: v + "2" for k, v in _CCOLS.items()}
_SIX = ["ids", "pids", "types", "xs", "ys", "zs"]
_L = "List Int"

spec(lean="sort_tree6_", module="AlgoCat", file="swcgeom/core/tree_utils.py", func="_sort_tree",
     params=list(_SIX),
     vars=dict({c: _L for c in _SIX}, new_ids=_L, new_pids=_L, id_map=_L),
     ret="Unit", out=list(_SIX), fuel=True, tree_cols={"tree": _CCOLS}, subst={"tree": ("()", "Unit")},
     stmt_subst={"tree.ndata = {k: tree.ndata[k][id_map] for k in tree.ndata}": "\n".join(f"{c} = {c}[id_map]" for c in _SIX),
                 "tree.ndata[tree.names.id] = new_ids": "ids = new_ids", "tree.ndata[tree.names.pid] = new_pids": "pids = new_pids"},
     doc="`swcgeom/core/tree_utils.py::_sort_tree` on a tree that is its six columns id, pid, type, x, y, z (every column is gathered by `id_map`, "
         "then the two topology columns are replaced)")
TREE_CALLEE_INSTANCES.setdefault("_sort_tree", [])
if "sort_tree6_" not in TREE_CALLEE_INSTANCES["_sort_tree"]:
    TREE_CALLEE_INSTANCES["_sort_tree"].append("sort_tree6_")
TREE_CALLEE_INSTANCES.setdefault("redirect_tree", [])
if "redirect_tree" not in TREE_CALLEE_INSTANCES["redirect_tree"]:
    TREE_CALLEE_INSTANCES["redirect_tree"].append("redirect_tree")
TREE_CALLEE_FRAME["redirect_tree"] = {"sort": "False"}

_CAT_LOOP = "for k, v in tree.ndata.items():\n    if k in tree2.ndata:\n        tree.ndata[k] = np.concatenate([v, tree2.ndata[k]])\n" \
            "    else:\n        tree.ndata[k] = np.pad(v, (0, tree2.number_of_nodes()))"
_DEL_LOOP = "for k, v in tree.ndata.items():\n    tree.ndata[k] = np.delete(v, remove)"
spec(lean="cat_tree", module="AlgoCat", file="swcgeom/core/tree_utils.py", func="cat_tree",
     params=_SIX + [c + "2" for c in _SIX] + ["node1", "node2", "translate"],
     vars=dict({c: _L for c in _SIX + [c + "2" for c in _SIX]}, node1="Int", node2="Int", translate="Bool", c="Node@tree", ns="Int",
               remove="Option (List Int)", link_to_root=_L, n="Int"),
     ret="Unit", out=list(_SIX), fuel=True, tree_cols={"tree": _CCOLS, "tree2": _CCOLS2}, subst={"tree": ("()", "Unit")},
     absent=["no_move"],
     skip_stmts=["names = get_names(names)", "tree, tree2 = (tree1.copy(), tree2.copy())"],
     stmt_subst={_CAT_LOOP: "\n".join(f"{c} = np.concatenate([{c}, {c}2])" for c in _SIX),
                 _DEL_LOOP: "\n".join(f"{c} = np.delete({c}, remove)" for c in _SIX)},
     doc="`swcgeom/core/tree_utils.py::cat_tree` on the columns id, pid, type, x, y, z of the two copied trees (node handles are row indices; integer "
         "lattice coordinates; the legacy parameter `no_move` is absent)")
