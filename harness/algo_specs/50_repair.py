# C18 root repair and the repair dispatch of the reader (Gen/AlgoRepair.lean).  Executed in the namespace of harness/translate_algo.py.
#
# Trusted glue of this file (every entry replaces source text by its meaning on the modelled data; a change of the source text makes the
# key miss, and the translator then FAILS on the unknown construct):
#   * the DataFrame is its columns `ids`, `pids`, `types`, `rs` (subst / stores `df[names.<col>]`), with the default RangeIndex
#     (index label = row position); `names = get_names(names)` is skipped;
#   * `get_dsu(df)` / `is_single_root(df)` / `mark_roots_as_somas_(df)` … are the translated functions applied to the columns (call_alias);
#   * link_roots_to_nearest_: the matrix of difference vectors `df[[x, y, z]] - row[[x, y, z]]` is represented by the row it is taken
#     from, and `np.linalg.norm(·, axis=1)` is the callback `norm : σ → Int → σ × List Int` giving the distances of all rows to that row
#     (any strictly monotone image of the float distances gives the same `argmin`; the suites pass squared lattice distances);
#   * read_swc: `fix_roots` is `none` (False) or `some s` (a string; any other value behaves like an unknown string);
#     the parsing statements before `# fix swc` are skipped; the returned `(df, comments)` is the updated columns plus `warnings_`;
#   * sort_nodes_: `for col in df.columns: df[col] = df[col].to_numpy()[indices]` is the gather of the four modelled columns.
MODULE_IMPORTS["AlgoRepair"] = ["Model.PyFrame", "AlgoCheckers", "AlgoNormalizer", "AlgoSort"]
CALLEES["get_dsu"] = "get_dsu"
CALLEES["reset_index_"] = "reset_index_"
CALLEES["mark_roots_as_somas_"] = "mark_roots_as_somas_"

_NORM = "swcgeom/core/swc_utils/normalizer.py"
_RDF = dict(_DF, **{"df[names.r]": ("v.rs", "List Int")})
_RDFS = dict(_DFS, **{"df[names.r]": "rs"})
_DIST = {"np.linalg.norm": ("(norm : σ → Int → σ × (List Int))", 1, "List Int")}
_ALIAS = {"get_dsu": ("get_dsu", ["df[names.id]", "df[names.pid]"]),
          "is_single_root": ("is_single_root", ["df[names.id]", "df[names.pid]"]),
          "mark_roots_as_somas_": ("mark_roots_as_somas_", ["df[names.id]", "df[names.pid]", "df[names.type]"]),
          "link_roots_to_nearest_": ("link_roots_to_nearest_", ["df[names.id]", "df[names.pid]"]),
          "reset_index_": ("reset_index_", ["df[names.id]", "df[names.pid]"]),
          "sort_nodes_": ("sort_nodes_", ["df[names.id]", "df[names.pid]", "df[names.type]", "df[names.r]"])}

spec(lean="is_single_root", module="AlgoRepair", file="swcgeom/core/swc_utils/checker.py", func="is_single_root", callee=["is_single_root"],
     params=["ids", "pids"], vars={"ids": "List Int", "pids": "List Int"}, ret="Bool", fuel=True,
     call_alias={"get_dsu": _ALIAS["get_dsu"]}, subst=_DF,
     doc="`swcgeom/core/swc_utils/checker.py::is_single_root` (the two DataFrame columns are the parameters `ids`, `pids`)")

spec(lean="link_roots_to_nearest_", module="AlgoRepair", file=_NORM, func="link_roots_to_nearest_", callee=["link_roots_to_nearest_"],
     params=["ids", "pids"],
     vars={"ids": "List Int", "pids": "List Int", "dsu": "List Int", "roots": "Iter (Int × Int)", "i": "Int", "row": "Int", "vs": "Int",
           "dis": "List (Option Int)", "subtree": "List Bool"},
     ret="Unit", out=["pids"], fuel=True, tparams=["σ"], callbacks=_DIST,
     subst=dict(_DF, **{"df[[names.x, names.y, names.z]] - row[[names.x, names.y, names.z]]": ("v.row", "Int")}),
     stores=_DFS, skip_stmts=["names = get_names(names)"], call_alias={"get_dsu": _ALIAS["get_dsu"]},
     doc="`swcgeom/core/swc_utils/normalizer.py::link_roots_to_nearest_` (DataFrame columns as variables; the distances of all rows to a row "
         "are the callback `norm`; a float array is finite values / `inf`)")

spec(lean="sort_nodes_", module="AlgoRepair", file=_NORM, func="sort_nodes_", callee=["sort_nodes_"],
     params=["cid", "cpid", "ctype", "cr"],
     vars={"cid": "List Int", "cpid": "List Int", "ctype": "List Int", "cr": "List Int", "ids": "List Int", "pids": "List Int",
           "new_ids": "List Int", "new_pids": "List Int", "indices": "List Int"},
     ret="Unit", out=["cid", "cpid", "ctype", "cr"], fuel=True,
     subst={"df[names.id]": ("v.cid", "List Int"), "df[names.pid]": ("v.cpid", "List Int")},
     stores={"df[names.id]": "cid", "df[names.pid]": "cpid"}, skip_stmts=["names = get_names(names)"],
     stmt_subst={"for col in df.columns:\n    df[col] = df[col].to_numpy()[indices]":
                 "cid = cid[indices]\ncpid = cpid[indices]\nctype = ctype[indices]\ncr = cr[indices]"},
     doc="`swcgeom/core/swc_utils/normalizer.py::sort_nodes_` (the frame is its columns `cid`, `cpid`, `ctype`, `cr`: every column is gathered "
         "by `indices`, then the two topology columns are replaced)")

spec(lean="read_swc_fix", module="AlgoRepair", file="swcgeom/core/swc_utils/io.py", func="read_swc",
     params=["ids", "pids", "types", "rs", "fix_roots", "sort_nodes", "reset_index"],
     vars={"ids": "List Int", "pids": "List Int", "types": "List Int", "rs": "List Int", "fix_roots": "Option String",
           "sort_nodes": "Bool", "reset_index": "Bool", "warnings_": "List Int"},
     ret="Unit", out=["ids", "pids", "types", "rs", "warnings_"], fuel=True, tparams=["σ"], callbacks=_DIST,
     subst=dict(_RDF, **{"fix_roots is not False": ("(v.fix_roots).isSome", "Bool"), "fix_roots": ("(v.fix_roots.getD \"\")", "String"),
                         "(df, comments)": ("()", "Unit")}),
     stores=_RDFS, call_alias=_ALIAS,
     skip_stmts=["names = get_names(names)", "df, comments = parse_swc(swc_file, names=names, extra_cols=extra_cols, encoding=encoding)"],
     doc="`swcgeom/core/swc_utils/io.py::read_swc` after parsing, from `# fix swc` to the end (the parsed frame is the columns `ids`, `pids`, "
         "`types`, `rs`; `fix_roots=False` is `none`; the warnings issued are returned as call-site numbers in `warnings_`)")
