# C08 (session 4, T12 `branchtree`): BranchTree.from_tree at the topology level  ->  Gen/AlgoBranchTree.lean
# (on the translated `Tree.get_branches` of Gen/AlgoBranches.lean and the translated `to_sub_topology` of Gen/AlgoSubtree.lean)
#
# Data: the input tree is its two topology columns `ids`, `pids` (`tree_cols`); a `Branch` of it is the list `br.idx` of the rows it is
# built from, and a member `br[k]` reads the columns of the tree at row `br.idx[k]` (`Path.get_ndata(key) = attach.get_ndata(key)[idx]`), i.e.
# it is a node handle of the tree: a Branch has the type `List Node@tree`.  The branch tree that is built is the record `BranchTreeObj` of its
# modelled attributes.
MODULE_IMPORTS["AlgoBranchTree"] = ["AlgoBranches", "AlgoSubtree"]
MODULE_MODEL_IMPORTS["AlgoBranchTree"] = ["PyNonzero"]          # Py.nonzero
MODULE_STRUCTS["AlgoBranchTree"] = ["BranchTreeObj"]
# `n` = the node count handed to the constructor, `id` / `pid` = the two topology columns, `src` = the rows of the ORIGINAL table every
# other column is gathered from (`tree.get_ndata(k)[id_map]`), `branches` = the attribute `branch_tree.branches`
STRUCTS["BranchTreeObj"] = {"n": "Int", "id": "List Int", "pid": "List Int", "src": "List Int", "branches": "Dict Int (List (List Int))"}
# the constructor creates the object WITHOUT a `branches` attribute (the class only annotates it); the record field starts empty
STRUCT_CTORS["BranchTreeObj"] = ("(fun n i p m => (BranchTreeObj.mk n i p m [] : BranchTreeObj))", "BranchTreeObj")


# ---- general constructs added through the extension hooks --------------------------------------------------------------------------

def _erase_nodes(t, T):
    """the type with the node handles of tree `T` read as the integers they are"""
    if isinstance(t, str):
        return "Int" if t == f"Node@{T}" else t
    return (t[0],) + tuple(_erase_nodes(x, T) for x in t[1:])


_in_branch_hook = []


def _hook_tree_method_branches(tr, e, want):
    """`T.get_branches()` (any translated method of a tree `T` that is column variables) where the declared type of the target reads the
    integers of the result as NODE HANDLES OF `T`: the `Tree.Branch(self, idx)` objects a tree method returns are attached to the receiver,
    and the list `idx` a Branch is modelled by is a list of rows of the receiver."""
    if _in_branch_hook or want is None or not (isinstance(e, ast.Call) and isinstance(e.func, ast.Attribute) and e.func.attr in TREE_METHODS):
        return None
    T = ast.unparse(e.func.value)
    if T not in tr.spec.tree_cols:
        return None
    callee = by_lean_global[TREE_METHODS[e.func.attr]]
    rty = parse_type(callee.ret)
    if want == rty or _erase_nodes(want, T) != rty:
        return None
    _in_branch_hook.append(1)
    try:
        s, c, t = tr.tr(e, None)
    finally:
        _in_branch_hook.pop()
    return (s, c, want) if t == rty else None


def _hook_nonzero(tr, e, want):
    """`np.nonzero(mask)[0]` of a 1-d boolean array: the positions of its `True` entries, ascending (`np.nonzero` returns a 1-tuple)"""
    if not (isinstance(e, ast.Subscript) and isinstance(e.slice, ast.Constant) and e.slice.value == 0 and isinstance(e.slice.value, int)
            and not isinstance(e.slice.value, bool) and isinstance(e.value, ast.Call) and ast.unparse(e.value.func) in ("np.nonzero", "numpy.nonzero")
            and len(e.value.args) == 1 and not e.value.keywords):
        return None
    s, c, t = tr.tr(e.value.args[0])
    if t != ("List", "Bool"):
        return None
    return s, f"(Py.nonzero {c})", ("List", "Int")


def _hook_field_store(tr, s):
    """`obj.f = e` on a variable holding a record: the expected type of `e` is the declared type of the field (an empty `{}` / `[]` needs it)"""
    if not (isinstance(s, ast.Assign) and len(s.targets) == 1 and isinstance(s.targets[0], ast.Attribute)
            and isinstance(s.targets[0].value, ast.Name)):
        return None
    tgt = s.targets[0]
    sty = tr.vars.get(tgt.value.id)
    if not (isinstance(sty, str) and sty in STRUCTS and tgt.attr in STRUCTS[sty]):
        return None
    ft = parse_type(STRUCTS[sty][tgt.attr])
    st, c, t = tr.tr(s.value, ft)
    c = tr.coerce(c, t, ft)
    return tr.chain(st, ".next " + tr.lvalue(tgt)(c))


EXPR_HOOKS.append(_hook_tree_method_branches)
EXPR_HOOKS.append(_hook_nonzero)
STMT_HOOKS.append(_hook_field_store)


# ---- the function -------------------------------------------------------------------------------------------------------------------

_BRANCH = "List Node@tree"
spec(lean="bt_from_tree", module="AlgoBranchTree", file="swcgeom/core/branch_tree.py", cls="BranchTree", func="from_tree",
     params=["ids", "pids"],
     vars={"ids": "List Int", "pids": "List Int", "branches": f"List ({_BRANCH})", "br": _BRANCH, "sub_id": "List Int", "sub_pid": "List Int",
           "new_id": "List Int", "new_pid": "List Int", "id_map": "List Int", "n_nodes": "Int", "idx": "Int", "branch_tree": "BranchTreeObj"},
     ret="BranchTreeObj", fuel=True, tree_cols={"tree": {"id": "ids", "pid": "pids"}},
     # GLUE (trusted, see design_notes/session4/branchtree.md):
     # * every column of the new table is the old column gathered by `id_map` (recorded as the field `src`), then the two topology columns are replaced
     skip_stmts=["ndata = {k: tree.get_ndata(k)[id_map].copy() for k in tree.keys()}", "ndata[tree.names.id] = new_id", "ndata[tree.names.pid] = new_pid"],
     # * the constructor call: the new object's modelled attributes
     stmt_subst={"branch_tree = cls(n_nodes, **ndata, source=tree.source, names=tree.names)":
                 "branch_tree = BranchTreeObj(n_nodes, new_id, new_pid, id_map)"},
     # * a detached Branch is a copy of the rows of its members: the branch tree remembers the list of the original branch's nodes
     subst={"br.detach()": ("v.br", "List Int")},
     doc="`swcgeom/core/branch_tree.py::BranchTree.from_tree` at the topology level (the tree is its columns `ids`, `pids`; a Branch is the list "
         "of its rows; the result is the record of the new table's `id`, `pid`, the gather map `src` and the `branches` dictionary)")
