# C15 (T20, `asclexer`): the CHARACTER level of swcgeom/transforms/neurolucida_asc.py — `Lexer.__init__`, `__iter__`, `__next__`, `_read_char`,
# `_read_word`, `_read_line`, `_token` with the position bookkeeping  ->  Gen/AlgoAscLex.lean
#
# Data model (trusted reading of the classes, see design_notes/session4/asclexer.md):
#  * the stream `Lexer.r` (an `io.TextIOBase` opened for reading) is the `str` of the characters that have not been read yet (type `TextIO`):
#    `r.read(1)` takes the first character ("" at the end), `r.readline()` everything up to and including the next "\n";
#  * `Lexer = (r, lineno, column, next_char)`; a `Token` is the record `LexToken = (type, value, lineno, column)` with `type` the integer
#    `auto()` gives the `TokenType` member (read from the source) and `value` a `Py.Atom` (a str, or a float kept as an opaque payload);
#  * the decision FLOAT vs LITERAL is `RE_FLOAT.match(word) is not None` = the pure parameter `isNumber : String → Bool`; the pattern text of
#    `RE_FLOAT` is PINNED below (`_str_expr_hook`: the translator fails when it changes); CPython's `float(word)` = the pure parameter
#    `parseNumber : String → Option Py.Atom` (`none` = ValueError, an untracked exception of `__next__`).
_ASCL = "swcgeom/transforms/neurolucida_asc.py"
MODULE_STRUCTS["AlgoAscLex"] = ["Lexer", "LexToken"]
MODULE_MODEL_IMPORTS["AlgoAscLex"] = ["PyObjHeap", "PyText"]
STRUCTS["Lexer"] = {"r": "TextIO", "lineno": "Int", "column": "Int", "next_char": "String"}
STRUCTS["LexToken"] = {"type": "Int", "value": "PyAtom", "lineno": "Int", "column": "Int"}
# `Token(type, value, lineno, column)`: `Token.__init__` only stores its four arguments
STRUCT_CTORS["Token"] = ("LexToken.mk", "LexToken")

_RE_FLOAT_PINNED = r"[-+]?[0-9]*\.?[0-9]+([eE][-+]?[0-9]+)?"


def _pinned_regex(tr, name):
    """is `name` a module-level `re.compile(<the pinned pattern>)` of the source file being translated?"""
    for nd in ast.parse((REPO / tr.spec.file).read_text()).body:
        if isinstance(nd, ast.Assign) and ast.unparse(nd.targets[0]) == name:
            return ast.unparse(nd.value) == f"re.compile({_RE_FLOAT_PINNED!r})"
    return False


def _sh_textio(t):
    return "String" if t == "TextIO" else None


SHOW_TYPE_HOOKS.append(_sh_textio)


def _str_expr_hook(tr, e, want):
    """Python `str` operations and text streams:
       a == b, a != b  (str)            -> Py.Text.eq            a in b, a not in b (str in str: substring)  -> Py.Text.strIn
       a + b (str)                      -> Py.Text.cat           a.endswith(b) -> Py.Text.endswith          a[:-k] -> Py.Text.dropEnd
       r.read(1) / r.readline() on a text stream (the unread characters): the characters read; the stream variable is advanced"""
    if (isinstance(e, ast.Compare) and len(e.ops) == 1 and isinstance(e.ops[0], ast.IsNot) and ast.unparse(e.comparators[0]) == "None"
            and isinstance(e.left, ast.Call) and isinstance(e.left.func, ast.Attribute) and e.left.func.attr == "match"
            and isinstance(e.left.func.value, ast.Name) and len(e.left.args) == 1 and any(b.startswith("(isNumber ") for b in tr.spec.fparams)):
        # `RX.match(w) is not None` with RX the module-level regex of the PINNED text: the parameter `isNumber` (a prefix match of that pattern)
        if not _pinned_regex(tr, e.left.func.value.id):
            raise Untranslatable(f"{tr.spec.lean}: `{e.left.func.value.id}` is not re.compile({_RE_FLOAT_PINNED!r})")
        s1, a, ta = tr.tr(e.left.args[0])
        if ta == "String":
            return s1, f"(isNumber {a})", "Bool"
        return None
    if isinstance(e, ast.Compare) and len(e.ops) == 1 and isinstance(e.ops[0], (ast.Eq, ast.NotEq, ast.In, ast.NotIn)):
        s1, a, ta = tr.tr(e.left)
        s2, b, tb = tr.tr(e.comparators[0])
        if ta == "String" and tb == "String":
            c = f"(Py.Text.eq {a} {b})" if isinstance(e.ops[0], (ast.Eq, ast.NotEq)) else f"(Py.Text.strIn {a} {b})"
            return s1 + s2, c if isinstance(e.ops[0], (ast.Eq, ast.In)) else f"(!{c})", "Bool"
        return None
    if isinstance(e, ast.BinOp) and isinstance(e.op, ast.Add):
        s1, a, ta = tr.tr(e.left)
        s2, b, tb = tr.tr(e.right)
        if ta == "String" and tb == "String":
            return s1 + s2, f"(Py.Text.cat {a} {b})", "String"
        return None
    if isinstance(e, ast.Subscript) and isinstance(e.slice, ast.Slice) and e.slice.lower is None and e.slice.step is None:
        up = e.slice.upper
        if isinstance(up, ast.UnaryOp) and isinstance(up.op, ast.USub) and isinstance(up.operand, ast.Constant) and isinstance(up.operand.value, int) \
                and up.operand.value > 0:
            s1, a, ta = tr.tr(e.value)
            if ta == "String":
                return s1, f"(Py.Text.dropEnd {a} {up.operand.value})", "String"
        return None
    if isinstance(e, ast.Call) and isinstance(e.func, ast.Attribute) and not e.keywords:
        meth, recv = e.func.attr, e.func.value
        if meth == "endswith" and len(e.args) == 1:
            s1, a, ta = tr.tr(recv)
            s2, b, tb = tr.tr(e.args[0])
            if ta == "String" and tb == "String":
                return s1 + s2, f"(Py.Text.endswith {a} {b})", "Bool"
            return None
        is_read1 = meth == "read" and len(e.args) == 1 and isinstance(e.args[0], ast.Constant) and e.args[0].value == 1
        if is_read1 or (meth == "readline" and not e.args):
            s1, a, ta = tr.tr(recv)
            if ta != "TextIO" or s1:
                return None
            lv = tr.lvalue(recv)                      # stateful: the receiver must be a variable / a field of one
            n = tr.bindname()
            fn = "Py.Text.read1" if is_read1 else "Py.Text.readline"
            return [f"let {n} := {fn} {a}; let v := {lv(n + '.2')};"], f"{n}.1", "String"
    return None


EXPR_HOOKS.append(_str_expr_hook)


def _match_guard_hook(tr, s):
    """`match (x := e):` / `match x:` whose cases are str / int constants, with `if` guards and a final wildcard: the subject is evaluated
    (and bound) once, the cases are tried in order — a value pattern compares with `==`, a guard is evaluated only when its pattern matched, the
    first case that passes runs; no case = nothing happens.  Desugared to the assignment followed by the `if / elif / else` chain."""
    if not isinstance(s, ast.Match):
        return None
    subj, pre = s.subject, []
    if isinstance(subj, ast.NamedExpr) and isinstance(subj.target, ast.Name):
        pre = [ast.Assign([ast.Name(subj.target.id, ast.Store())], subj.value)]
        name = subj.target.id
    elif isinstance(subj, ast.Name):
        name = subj.id
    else:
        return None
    if not pre and all(c.guard is None for c in s.cases):
        return None                                   # the built-in rule handles it
    orelse = []
    for k, case in reversed(list(enumerate(s.cases))):
        p = case.pattern
        if isinstance(p, ast.MatchValue) and isinstance(p.value, ast.Constant) and isinstance(p.value.value, (str, int)) \
                and not isinstance(p.value.value, bool):
            test = ast.Compare(ast.Name(name, ast.Load()), [ast.Eq()], [p.value])
        elif isinstance(p, ast.MatchAs) and p.pattern is None and p.name is None:
            test = None
        else:
            raise Untranslatable(f"{tr.spec.lean}: pattern `{ast.unparse(p)}`")
        if case.guard is not None:
            test = case.guard if test is None else ast.BoolOp(ast.And(), [test, case.guard])
        if test is None:
            if k != len(s.cases) - 1:
                raise Untranslatable("irrefutable case before the last one")
            orelse = list(case.body)
        else:
            orelse = [ast.If(test, list(case.body), orelse)]
    new = pre + orelse
    for nd in new:
        ast.copy_location(nd, s)
        ast.fix_missing_locations(nd)
    return tr.block(new)


STMT_HOOKS.append(_match_guard_hook)

_LX = {"self": "Lexer"}
spec(lean="lexer_init", module="AlgoAscLex", file=_ASCL, cls="Lexer", func="__init__",
     params=["self", "r"], vars=dict(_LX, r="TextIO"), ret="Unit", out=["self"],
     doc="`neurolucida_asc.py::Lexer.__init__` (the stream is the string of its unread characters)")
spec(lean="lexer_iter", module="AlgoAscLex", file=_ASCL, cls="Lexer", func="__iter__",
     params=["self"], vars=dict(_LX), ret="Lexer", doc="`neurolucida_asc.py::Lexer.__iter__`")
spec(lean="lexer_read_char", module="AlgoAscLex", file=_ASCL, cls="Lexer", func="_read_char", callee=["self._read_char"],
     params=["self"], vars=dict(_LX), ret="Bool", out=["self"], doc="`neurolucida_asc.py::Lexer._read_char`")
spec(lean="lexer_read_word", module="AlgoAscLex", file=_ASCL, cls="Lexer", func="_read_word", callee=["self._read_word"],
     params=["self"], vars=dict(_LX, token="String", ch="String"), ret="String", out=["self"], fuel=True,
     doc="`neurolucida_asc.py::Lexer._read_word`")
spec(lean="lexer_read_line", module="AlgoAscLex", file=_ASCL, cls="Lexer", func="_read_line", callee=["self._read_line"],
     params=["self"], vars=dict(_LX, line="String"), ret="String", out=["self"], doc="`neurolucida_asc.py::Lexer._read_line`")
spec(lean="lexer_token", module="AlgoAscLex", file=_ASCL, cls="Lexer", func="_token", callee=["self._token"],
     params=["self", "type", "value"], vars=dict(_LX, type="Int", value="PyAtom"), ret="LexToken",
     doc="`neurolucida_asc.py::Lexer._token`")
spec(lean="lexer_next", module="AlgoAscLex", file=_ASCL, cls="Lexer", func="__next__",
     params=["self"], vars=dict(_LX, word="String"), ret="LexToken", out=["self"], fuel=True, raises=True,
     fparams=["(isNumber : String → Bool)", "(parseNumber : String → Option Py.Atom)"],
     subst={"float(word)": ("f_", "PyAtom", ["Py.bind (parseNumber v.word) fun f_ =>"])},
     doc="`neurolucida_asc.py::Lexer.__next__`: `.error StopIteration` at the end of the stream; `isNumber` = `RE_FLOAT.match(word) is not None`, "
         "`parseNumber` = `float(word)` (`none` = ValueError: the call raises an untracked exception)")
