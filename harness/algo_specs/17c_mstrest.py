# C17 (T32 `mstrest`): the rest of `swcgeom/transforms/mst.py`
#   PointsToCuntzMST.__init__   -> Gen.Algo.cuntz_init   (np.clip of bf, the attribute stores)
#   PointsToMST.__init__        -> Gen.Algo.mst_init     (deprecated alias `k_furcations`, `super().__init__(bf=0, …, **kwargs)`)
#   PointsToCuntzMST.__call__, the final `if self.sort: t = sort_tree(t)`  -> Gen.Algo.mst_tail (calls the generated `_sort_tree`, Gen/AlgoRedirect)
#   swcgeom/core/tree_utils.py::sort_tree -> Gen.Algo.sort_tree_pub
# Executed in the namespace of harness/translate_algo.py.
#
# New GENERAL constructs (hooks below, nothing keyed on a function name; semantics in lean/SwcVerif/Model/PyMstRest.lean):
#   np.clip(x, lo, hi)     x a scalar of numeric type K, lo / hi literals         Py.clip x lo hi  = min(max(x, lo), hi)   (numpy: minimum(maximum(x, lo), hi))
#   super().__init__(k=e, …, **kwargs)   in a method of class C whose (single) base class B has a translated `__init__` in the same module whose
#                          attribute stores `self.a` are variables: the call of B's translation with the keywords bound to B's parameters, B's
#                          defaults READ FROM B's `def` for the parameters not given; the attributes B stores are written to the caller's variables
#                          for the same `self.a`.  `**kwargs`: the caller declares, for every parameter `p` of B it may forward, a variable
#                          `kwargs_p : Option T` (None = key absent): B's parameter `p` is `kwargs_p` if present, else B's default.
#   X = f(X)               f a translated function that updates a whole tree in place and returns it (TREE_CALLEES), X a tree that is column
#                          variables: the call `f(X)`
#
# TRUSTED GLUE (complete list; a change of the source text of a glued statement makes the key miss -> translator failure):
#   * cuntz_init: `stores` — `self.bf`, `self.furcations`, `self.exclude_soma`, `self.sort` are the variables `s_bf`, `s_furcations`, `s_exclude_soma`,
#     `s_sort` (the object is its four modelled attributes); `skip_stmts`: `self.names = get_names(names)`, `self.types = get_types(types)`
#     (labels of the columns / the two type codes: parameters `t_glia`, `t_soma` of `mst_call`); `absent`: names, types.
#   * mst_init: same `stores`; `absent`: names, types (passed through as None); `kwargs` is modelled on the keys {sort} (`kwargs_sort`): any other key
#     makes `PointsToCuntzMST.__init__` raise TypeError (unknown keyword, or `bf` given twice) — outside the model.
#   * mst_tail: `self.sort` is the parameter `sort`; the tree `t` IS its columns `ids, pid, types` (`tree_cols`), the columns x, y, z, r are gathered by the
#     same `id_map` in `_sort_tree` (`tree.ndata[k][id_map]` for every k) and are not part of this 3-column instance.
#   * sort_tree_pub: `tree.copy()` is the tree (same columns; the copy only protects the caller's object).
MODULE_MODEL_IMPORTS["AlgoMstRest"] = ["PyMstRest"]
MODULE_IMPORTS["AlgoMstRest"] = ["AlgoRedirect"]

_MR_FILE = "swcgeom/transforms/mst.py"


def _mr_class_bases(tr):
    src = (REPO / tr.spec.file).read_text()
    for nd in ast.parse(src).body:
        if isinstance(nd, ast.ClassDef) and nd.name == tr.spec.cls:
            return [ast.unparse(b) for b in nd.bases]
    return []


def _mr_expr(tr, e, want):
    # np.clip(x, lo, hi), lo / hi int literals, x : K
    if (isinstance(e, ast.Call) and ast.unparse(e.func) == "np.clip" and len(e.args) == 3 and not e.keywords
            and all(isinstance(a, ast.Constant) and isinstance(a.value, int) and not isinstance(a.value, bool) and a.value in (0, 1) for a in e.args[1:])):
        s0, c, t = tr.tr(e.args[0])
        if t in tr.num:
            return s0, f"(Py.clip {c} ({e.args[1].value} : {t}) ({e.args[2].value} : {t}))", t
        return None
    return None


def _mr_stmt(tr, s):
    # super().__init__(k=e, …, **kwargs)
    if (isinstance(s, ast.Expr) and isinstance(s.value, ast.Call) and ast.unparse(s.value.func) == "super().__init__" and not s.value.args
            and s.value.keywords and tr.spec.cls is not None):
        bases = _mr_class_bases(tr)
        if len(bases) != 1:
            return None
        cands = [sp for sp in SPECS if sp.cls == bases[0] and sp.func == "__init__" and sp.module == tr.spec.module and sp.file == tr.spec.file]
        if len(cands) != 1:
            return None
        callee = cands[0]
        kw = {k.arg: k.value for k in s.value.keywords if k.arg is not None}
        star = [k.value for k in s.value.keywords if k.arg is None]
        if len(star) > 1 or (star and ast.unparse(star[0]) != "kwargs"):
            return None
        dflt = fn_defaults(callee)
        for k in kw:
            if k not in callee.params and k not in callee.absent:
                raise Untranslatable(f"{tr.spec.lean}: `{ast.unparse(s)}`: `{k}` is not a parameter of {callee.lean}")
        steps, codes = [], []
        for p in callee.params:
            pt = parse_type(callee.vars[p])
            if p in kw:
                s0, c, t = tr.tr(kw[p], pt)
                if t != pt:
                    if pt in tr.num and t == "Int" and isinstance(kw[p], ast.Constant) and kw[p].value in (0, 1):
                        c = f"({kw[p].value} : {pt})"
                    else:
                        raise Untranslatable(f"{tr.spec.lean}: `{ast.unparse(s)}`: `{p}` has type {t}, expected {pt}")
                steps += s0; codes.append(c)
                continue
            if p not in dflt:
                raise Untranslatable(f"{tr.spec.lean}: `{ast.unparse(s)}` gives no value for `{p}`")
            s1, d, t = tr.tr(dflt[p], pt)
            if t != pt:
                raise Untranslatable(f"{tr.spec.lean}: default of `{p}`")
            if star and tr.vars.get(f"kwargs_{p}") == ("Option", pt):
                steps += s1; codes.append(f"(match v.kwargs_{p} with | some x => x | none => {d})")
            else:
                steps += s1; codes.append(d)
        for k in kw:
            if k in callee.absent and not (isinstance(kw[k], ast.Name) and kw[k].id in tr.spec.absent):
                raise Untranslatable(f"{tr.spec.lean}: `{ast.unparse(s)}` passes `{k}`, which {callee.lean} does not model")
        inv = {var: txt for txt, var in callee.stores.items()}
        outs = []
        for o in callee.out:
            if o not in inv or inv[o] not in tr.spec.stores:
                raise Untranslatable(f"{tr.spec.lean}: attribute `{o}` stored by {callee.lean} is not a variable here")
            outs.append(lname(tr.spec.stores[inv[o]]))
        n = tr.bindname()
        k = len(outs) + 1
        back = ", ".join(f"{o} := {proj(n, j, k)}" for j, o in enumerate(outs))
        return tr.chain(steps + [f"Py.bind ({callee.lean} {' '.join(codes)}) fun {n} =>"], f".next {{ v with {back} }}")
    # X = f(X), f a tree callee updating X in place and returning it
    if (isinstance(s, ast.Assign) and len(s.targets) == 1 and isinstance(s.targets[0], ast.Name) and isinstance(s.value, ast.Call)
            and ast.unparse(s.value.func) in TREE_CALLEES and len(s.value.args) == 1 and not s.value.keywords
            and ast.unparse(s.value.args[0]) == s.targets[0].id and s.targets[0].id in tr.spec.tree_cols and s.targets[0].id not in tr.vars):
        x = ast.Expr(s.value)
        ast.copy_location(x, s); ast.fix_missing_locations(x)
        return tr.s_Expr(x)
    return None


EXPR_HOOKS.append(_mr_expr)
STMT_HOOKS.append(_mr_stmt)

_MR_STORES = {"self.bf": "s_bf", "self.furcations": "s_furcations", "self.exclude_soma": "s_exclude_soma", "self.sort": "s_sort"}
_MR_OUT = ["s_bf", "s_furcations", "s_exclude_soma", "s_sort"]
spec(lean="cuntz_init", module="AlgoMstRest", file=_MR_FILE, cls="PointsToCuntzMST", func="__init__",
     params=["bf", "furcations", "exclude_soma", "sort"], num_tparams=["K"], absent=["names", "types"],
     vars={"bf": "K", "furcations": "Int", "exclude_soma": "Bool", "sort": "Bool",
           "s_bf": "K", "s_furcations": "Int", "s_exclude_soma": "Bool", "s_sort": "Bool"},
     stores=_MR_STORES, skip_stmts=["self.names = get_names(names)", "self.types = get_types(types)"],
     ret="Unit", out=_MR_OUT,
     doc="`swcgeom/transforms/mst.py::PointsToCuntzMST.__init__`: the attributes it stores (`self.bf`, `self.furcations`, `self.exclude_soma`, `self.sort` are "
         "the variables `s_bf`, `s_furcations`, `s_exclude_soma`, `s_sort`; `names` / `types` are not modelled)")
spec(lean="mst_init", module="AlgoMstRest", file=_MR_FILE, cls="PointsToMST", func="__init__",
     params=["furcations", "k_furcations", "exclude_soma", "kwargs_sort"], num_tparams=["K"], absent=["names", "types"],
     vars={"furcations": "Int", "k_furcations": "Option Int", "exclude_soma": "Bool", "kwargs_sort": "Option Bool", "warnings_": "List Int",
           "s_bf": "K", "s_furcations": "Int", "s_exclude_soma": "Bool", "s_sort": "Bool"},
     stores=_MR_STORES, ret="Unit", out=_MR_OUT + ["warnings_"],
     doc="`swcgeom/transforms/mst.py::PointsToMST.__init__` (`kwargs` on the key `sort`: `kwargs_sort`; the deprecation warning is recorded in `warnings_`)")

[sp for sp in SPECS if sp.lean == "cuntz_init"][0].defaults.update({"bf": "0.4", "furcations": "2", "exclude_soma": "True", "sort": "True", "names": "None", "types": "None"})
[sp for sp in SPECS if sp.lean == "mst_init"][0].defaults.update({"furcations": "2", "k_furcations": "None", "exclude_soma": "True", "names": "None", "types": "None"})

_MR_T3 = {"id": "ids", "pid": "pid", "type": "types"}
spec(lean="sort_tree_pub", module="AlgoMstRest", file="swcgeom/core/tree_utils.py", func="sort_tree", tree_callee="sort_tree",
     params=["ids", "pids", "types"], vars={"ids": "List Int", "pids": "List Int", "types": "List Int"},
     ret="Unit", out=["ids", "pids", "types"], fuel=True, tree_cols={"tree.copy()": {"id": "ids", "pid": "pids", "type": "types"}},
     doc="`swcgeom/core/tree_utils.py::sort_tree` (`tree.copy()` IS the tree: its columns `ids`, `pids`, `types`)")
spec(lean="mst_tail", module="AlgoMstRest", file=_MR_FILE, cls="PointsToCuntzMST", func="__call__",
     seg_from="if self.sort:\n    t = sort_tree(t)", seg_to="if self.sort:",
     params=["ids", "pid", "types", "sort"], vars={"ids": "List Int", "pid": "List Int", "types": "List Int", "sort": "Bool"},
     ret="Unit", out=["ids", "pid", "types"], fuel=True, tree_cols={"t": _MR_T3}, subst={"self.sort": ("v.sort", "Bool")},
     doc="`swcgeom/transforms/mst.py::PointsToCuntzMST.__call__`, the final `if self.sort: t = sort_tree(t)` on the columns `ids`, `pid`, `types` of the tree "
         "`t` (`self.sort` is the parameter `sort`)")
