share_hooks("AlgoTravFront", "AlgoRaster")      # calls of the generated Tree.traverse instantiations with nested closures (04_travfront.py, H4)
share_hooks("AlgoResample", "AlgoRaster")       # float scalars / arrays over a numeric type parameter: `a / b`, int literals as floats (16_resample.py)
# C20 (T18 `raster`): swcgeom/transforms/image_stack.py  ->  Gen/AlgoRaster.lean, over a numeric type parameter `K` (run at Rat by the driver)
#   _tp3f                                  (assert len == 3; the tuple of the three floats)
#   ToImageStack._get_samplers             (generator: half-voxel offset, `while z < zmax` with `z += stride[2]`, one RangeSampler per slice)
#   ToImageStack._get_scene + nested leave (per-edge case analysis "one end ball contains the other -> the larger ball, else the round cone")
#   ToImageStack.transform                 (instantiation `verbose` falsy, `ranges` not passed: bounding box, samplers, one frame per sampler)
#
# New constructs (GENERAL: a Python construct / numpy / sdflit idiom and its meaning; semantics in lean/SwcVerif/Model/PyRaster.lean):
#   (R1) a float literal `1e-06` where a float is expected      the decimal number written, `Fld.div (Fld.ofInt p) (Fld.ofInt q)` (p/q in lowest terms)
#   (R2) `float(e)` on a float                                   e
#   (R3) `abs(e)` on a float                                     Py.absK e
#   (R4) `a.reshape(-1, 1)` on a 1-d float array                 the column vector (type `Col K`, as `a[:, None]`)
#   (R5) `np.min(m, axis=0)` / `np.max(m, axis=0)` (2-d)         Py.minAxis0 m / Py.maxAxis0 m   (no row / ragged rows raise)
#   (R6) `np.floor(a)` / `np.ceil(a)` on a 1-d float array       Py.floorArr a / Py.ceilArr a
#   (R7) `a + b` on 1-d float ARRAYS                             Py.addArr a b (element-wise with numpy broadcasting; NOT list concatenation)
#   (R8) `a / c` for a 1-d float array and an int literal        Py.divScalar a (c : K)
#   (R9) `X = X or E` for a parameter X that this instantiation does not pass (None) and that was not assigned before:  `X = E`
#   (R10) `n.<col>` / `n.xyz()` on a node handle whose tree has that column as a FLOAT array variable: the entry / row at the node's row index
#   (R11) sdflit: `Sphere(c, r).into()` / `RoundCone(a, b, ra, rb).into()` -> the record `Py.Sdf`; `SDFObject(s, material).into()` -> `s` (one material);
#         `ObjectsScene()` -> the empty list of solids, `scene.add_object(o)` -> append, `scene.into()` -> the list; `RangeSampler(lo, hi, stride)` -> the record
#   (R12) `yield e` in a generator whose spec declares `yielded_ : List T`: append (the generator IS the list of what it yields, in order; every consumer
#         in the library drains it)
#   (R13) `self.m(args)` for a translated method `m` of the same class whose spec has no `self` parameter (attributes of `self` are parameters):
#         a tree argument (`tree_cols`) becomes the callee's column parameters, a callee parameter standing for `self.<attr>` is the caller's `self.<attr>`,
#         the remaining parameters are the remaining arguments in order; the callee's pure function parameters are the caller's of the same name
# TRUSTED GLUE (every key is the exact source text; if it changes the translator fails), listed in design_notes/session4/raster.md.
MODULE_IMPORTS["AlgoRaster"] = ["AlgoTravFront"]
MODULE_MODEL_IMPORTS["AlgoRaster"] = ["PyResample", "PyRaster"]
TYPE_HEADS["RangeSampler"] = 1
TYPE_HEADS["Sdf"] = 1


def _ra_show(t):
    if isinstance(t, tuple) and t[0] in ("RangeSampler", "Sdf") and len(t) == 2:
        return f"(Py.{t[0]} {show_type(t[1])})"
    return None


SHOW_TYPE_HOOKS.append(_ra_show)


def _ra_arr(t, tr):
    return isinstance(t, tuple) and t[0] == "List" and t[1] in tr.num


def _ra_triple(K):
    return ("Prod", K, ("Prod", K, K))


def _ra_node_col(tr, recv, attr):
    """(steps, row-index code, column variable, its type) for `recv.attr` on a node handle whose tree has `attr` as a float-array column, else None"""
    try:
        s0, c, t = tr.tr(recv)
    except Untranslatable:
        return None
    if not is_node(t):
        return None
    cols = tr.spec.tree_cols.get(node_tree(t), {})
    if attr not in cols or cols[attr] not in tr.vars:
        return None
    ct = tr.vars[cols[attr]]
    if not (isinstance(ct, tuple) and ct[0] == "List"):
        return None
    return s0, c, cols[attr], ct


def _ra_expr(tr, e, want):
    if not tr.num:
        return None
    K0 = want if want in tr.num else (sorted(tr.num)[0] if len(tr.num) == 1 else None)
    # (R1) float literal
    if isinstance(e, ast.Constant) and isinstance(e.value, float) and (want in tr.num or want is None) and K0 is not None:
        from fractions import Fraction
        fr = Fraction(repr(e.value))
        if fr == 0 or fr == 1:
            return [], f"({int(fr)} : {K0})", K0
        return [], f"(Py.Fld.div (Py.Fld.ofInt ({fr.numerator} : Int)) (Py.Fld.ofInt ({fr.denominator} : Int)) : {K0})", K0
    # (R10) float columns of a node handle
    if isinstance(e, ast.Attribute):
        r = _ra_node_col(tr, e.value, e.attr)
        if r is not None and r[3][1] in tr.num:
            s0, c, col, ct = r
            n = tr.bindname()
            return s0 + [f"Py.bind (Py.idx v.{lname(col)} {c}) fun {n} =>"], n, ct[1]
        return None
    # (R7) element-wise `+` of 1-d float arrays
    if isinstance(e, ast.BinOp) and isinstance(e.op, ast.Add):
        s1, a, ta = tr.tr(e.left); s2, b, tb = tr.tr(e.right)
        if _ra_arr(ta, tr) and tb == ta:
            n = tr.bindname()
            return s1 + s2 + [f"Py.bind (Py.addArr {a} {b}) fun {n} =>"], n, ta
        return None
    # (R8) array / int literal
    if isinstance(e, ast.BinOp) and isinstance(e.op, ast.Div) and isinstance(e.right, ast.Constant) and isinstance(e.right.value, int) \
            and not isinstance(e.right.value, bool):
        s1, a, ta = tr.tr(e.left)
        if _ra_arr(ta, tr):
            n = tr.bindname()
            return s1 + [f"Py.bind (Py.divScalar {a} (Py.Fld.ofInt ({e.right.value} : Int) : {ta[1]})) fun {n} =>"], n, ta
        return None
    if not isinstance(e, ast.Call):
        return None
    f = ast.unparse(e.func)
    args = e.args
    kw = {k.arg: k.value for k in e.keywords}
    # (R2) / (R3)
    if f in ("float", "abs") and len(args) == 1 and not kw:
        s0, c, t = tr.tr(args[0], want)
        if t in tr.num:
            return (s0, c, t) if f == "float" else (s0, f"(Py.absK {c})", t)
        return None
    # (R4)
    if isinstance(e.func, ast.Attribute) and e.func.attr == "reshape" and [ast.unparse(x) for x in args] == ["-1", "1"] and not kw:
        s0, c, t = tr.tr(e.func.value)
        if _ra_arr(t, tr):
            return s0, c, ("Col", t[1])
        return None
    # (R5)
    if f in ("np.min", "np.max") and len(args) == 1 and set(kw) == {"axis"} and isinstance(kw["axis"], ast.Constant) and kw["axis"].value == 0:
        s0, c, t = tr.tr(args[0])
        if isinstance(t, tuple) and t[0] == "List" and _ra_arr(t[1], tr):
            n = tr.bindname()
            return s0 + [f"Py.bind (Py.{'minAxis0' if f == 'np.min' else 'maxAxis0'} {c}) fun {n} =>"], n, t[1]
        return None
    # (R6)
    if f in ("np.floor", "np.ceil") and len(args) == 1 and not kw:
        s0, c, t = tr.tr(args[0], want)
        if _ra_arr(t, tr):
            return s0, f"(Py.{'floorArr' if f == 'np.floor' else 'ceilArr'} {c})", t
        return None
    # (R10) `n.xyz()`: the row of the 2-d coordinate column at the node's row index
    if isinstance(e.func, ast.Attribute) and not args and not kw:
        r = _ra_node_col(tr, e.func.value, e.func.attr)
        if r is not None and _ra_arr(r[3][1], tr):
            s0, c, col, ct = r
            n = tr.bindname()
            return s0 + [f"Py.bind (Py.idx v.{lname(col)} {c}) fun {n} =>"], n, ct[1]
    # (R11) sdflit records
    if f == "RangeSampler" and len(args) == 3 and not kw and K0 is not None:
        steps, codes = [], []
        for x in args:
            s0, c, t = tr.tr(x, _ra_triple(K0))
            if t != _ra_triple(K0):
                return None
            steps += s0; codes.append(c)
        return steps, f"(Py.RangeSampler.mk {' '.join(codes)})", ("RangeSampler", K0)
    if f == "ObjectsScene" and not args and not kw and isinstance(want, tuple) and want[0] == "List" and isinstance(want[1], tuple) and want[1][0] == "Sdf":
        return [], f"([] : {show_type(want)})", want
    if isinstance(e.func, ast.Attribute) and e.func.attr == "into" and not args and not kw:
        inner = e.func.value
        if isinstance(inner, ast.Call) and not inner.keywords:
            g = ast.unparse(inner.func)
            if g == "Sphere" and len(inner.args) == 2 and K0 is not None:
                s0, c, t = tr.tr(inner.args[0], _ra_triple(K0)); s1, r_, t1 = tr.tr(inner.args[1], K0)
                if t == _ra_triple(K0) and t1 == K0:
                    return s0 + s1, f"(Py.Sdf.sphere {c} {r_})", ("Sdf", K0)
                return None
            if g == "RoundCone" and len(inner.args) == 4 and K0 is not None:
                steps, codes = [], []
                for x, w in zip(inner.args, (_ra_triple(K0), _ra_triple(K0), K0, K0)):
                    s0, c, t = tr.tr(x, w)
                    if t != w:
                        return None
                    steps += s0; codes.append(c)
                return steps, f"(Py.Sdf.cone {' '.join(codes)})", ("Sdf", K0)
            if g == "SDFObject" and len(inner.args) == 2:
                s0, c, t = tr.tr(inner.args[0])
                if isinstance(t, tuple) and t[0] == "Sdf":
                    return s0, c, t                      # one material for every solid: dropped
                return None
        s0, c, t = tr.tr(inner)
        if isinstance(t, tuple) and t[0] == "List" and isinstance(t[1], tuple) and t[1][0] == "Sdf":
            return s0, c, t                              # `scene.into()`: the scene is the list of its solids
        return None
    # (R13) a translated method of the same object
    if f.startswith("self.") and f in tr.table and tr.table[f].cls == tr.spec.cls and "self" not in tr.table[f].params and not kw:
        callee = tr.table[f]
        if callee.callbacks or callee.out not in ([], ["yielded_"]) or callee.raises:
            return None
        if callee.fuel and not tr.spec.fuel:
            raise Untranslatable(f"{tr.spec.lean} calls {callee.lean} which needs fuel")
        rest = list(args)
        steps, codes = [], []
        colsrc = {}                                       # callee column variable -> caller's code
        ccols = {}
        for d in callee.tree_cols.values():
            ccols.update({var: key for key, var in d.items()})
        k = 0
        while k < len(callee.params):
            pn = callee.params[k]
            pt = parse_type(callee.vars[pn])
            if pn in ccols:
                # the next argument is the tree: all the callee's column parameters come from it
                if not colsrc:
                    if not rest or ast.unparse(rest[0]) not in tr.spec.tree_cols:
                        raise Untranslatable(f"{tr.spec.lean}: `{ast.unparse(e)}` gives no tree for `{pn}`")
                    mine = tr.spec.tree_cols[ast.unparse(rest.pop(0))]
                    for var, key in ccols.items():
                        if key not in mine:
                            raise Untranslatable(f"{tr.spec.lean}: `{ast.unparse(e)}` needs column `{key}`")
                        colsrc[var] = f"v.{lname(mine[key])}"
                codes.append(colsrc[pn])
            elif f"self.{pn}" in callee.subst:
                s0, c, t = tr.tr(ast.parse(f"self.{pn}", mode="eval").body, pt)
                if t != pt:
                    raise Untranslatable(f"{tr.spec.lean}: `self.{pn}` is {t} here, {pt} in {callee.lean}")
                steps += s0; codes.append(c)
            elif rest:
                s0, c, t = tr.tr(rest.pop(0), pt)
                s0, c = tr.coerce2(s0, c, t, pt)
                steps += s0; codes.append(c)
            else:
                raise Untranslatable(f"{tr.spec.lean}: `{ast.unparse(e)}` gives no value for `{pn}`")
            k += 1
        if rest:
            raise Untranslatable(f"{tr.spec.lean}: too many arguments in `{ast.unparse(e)}`")
        mine_f = [b.split()[0].strip("(") for b in tr.spec.fparams]
        fargs = []
        for b in callee.fparams:
            nm = b.split()[0].strip("(")
            if nm not in mine_f or b not in tr.spec.fparams:
                raise Untranslatable(f"{tr.spec.lean}: `{callee.lean}` needs the function parameter `{b}`")
            fargs.append(nm)
        n = tr.bindname()
        call = " ".join([callee.lean] + fargs + (["fuel"] if callee.fuel else []) + codes)
        if callee.out == ["yielded_"]:
            return steps + [f"Py.bind ({call}) fun {n} =>"], f"{n}.1", parse_type(callee.vars["yielded_"])
        return steps + [f"Py.bind ({call}) fun {n} =>"], n, parse_type(callee.ret)
    return None


def _ra_assigned_before(tr, name, lineno):
    p = REPO / tr.spec.file
    if p not in _AST_CACHE:
        _AST_CACHE[p] = ast.parse(p.read_text())
    fdef = find_def(_AST_CACHE[p], tr.spec.cls, tr.spec.func)
    return any(isinstance(nd, ast.Name) and isinstance(nd.ctx, ast.Store) and nd.id == name and nd.lineno < lineno for nd in ast.walk(fdef))


def _ra_stmt(tr, s):
    # (R12) yield
    if isinstance(s, ast.Expr) and isinstance(s.value, ast.Yield) and s.value.value is not None:
        ty = tr.vars.get("yielded_")
        if not (isinstance(ty, tuple) and ty[0] == "List"):
            raise Untranslatable(f"{tr.spec.lean}: `yield` needs a declared variable `yielded_ : List T`")
        s0, c, t = tr.tr(s.value.value, ty[1])
        if t != ty[1]:
            raise Untranslatable(f"{tr.spec.lean}: yields {t}, declared {ty[1]}")
        return tr.chain(s0, f".next {{ v with yielded_ := (v.yielded_ ++ [{c}]) }}")
    # (R9) `X = X or E`
    if (isinstance(s, ast.Assign) and len(s.targets) == 1 and isinstance(s.targets[0], ast.Name) and s.targets[0].id in tr.spec.absent
            and isinstance(s.value, ast.BoolOp) and isinstance(s.value.op, ast.Or) and len(s.value.values) == 2
            and isinstance(s.value.values[0], ast.Name) and s.value.values[0].id == s.targets[0].id):
        if _ra_assigned_before(tr, s.targets[0].id, s.lineno):
            return None
        new = ast.Assign([s.targets[0]], s.value.values[1])
        ast.copy_location(new, s); ast.fix_missing_locations(new)
        return tr.s_Assign(new)
    # (R11) scene.add_object(o)
    if (isinstance(s, ast.Expr) and isinstance(s.value, ast.Call) and isinstance(s.value.func, ast.Attribute) and s.value.func.attr == "add_object"
            and len(s.value.args) == 1 and not s.value.keywords and isinstance(s.value.func.value, ast.Name)):
        recv = s.value.func.value
        t = tr.vars.get(recv.id)
        if isinstance(t, tuple) and t[0] == "List" and isinstance(t[1], tuple) and t[1][0] == "Sdf":
            s0, c, tc = tr.tr(s.value.args[0], t[1])
            if tc != t[1]:
                return None
            return tr.chain(s0, ".next " + tr.lvalue(recv)(f"(v.{lname(recv.id)} ++ [{c}])"))
    return None


EXPR_HOOKS.append(_ra_expr)
STMT_HOOKS.append(_ra_stmt)

_RA_FILE = "swcgeom/transforms/image_stack.py"
_RA_F = "(F : Py.Fld K)"
_RA_G = "(G : Py.Flr K)"
_RA_DIST = "(dist : Int → Int → K)"
_RA_X = {"x": {"id": "ids", "pid": "pids", "r": "rs", "xyz": "xyz"}}

spec(lean="tp3f", module="AlgoRaster", file=_RA_FILE, func="_tp3f", callee=["_tp3f"], params=["x"], num_tparams=["K"],
     vars={"x": "List K"}, ret="K × K × K")

# Trusted glue: `self.resolution` is the parameter `resolution`; the instantiation `offset` not passed (the only one in the library).
spec(lean="raster_get_samplers", module="AlgoRaster", file=_RA_FILE, cls="ToImageStack", func="_get_samplers", callee=["self._get_samplers"],
     params=["coord_min", "coord_max", "resolution"], absent=["offset"], num_tparams=["K"], fparams=[_RA_F], fuel=True,
     vars={"coord_min": "List K", "coord_max": "List K", "resolution": "List K", "eps": "K", "stride": "List K", "offset": "List K",
           "xmin": "K", "ymin": "K", "zmin": "K", "xmax": "K", "ymax": "K", "zmax": "K", "z": "K", "yielded_": "List (RangeSampler K)"},
     ret="Unit", out=["yielded_"], subst={"self.resolution": ("v.resolution", "List K")},
     doc="`swcgeom/transforms/image_stack.py::ToImageStack._get_samplers` (a generator: the list `yielded_` of the samplers it yields; `self.resolution` "
         "is the parameter `resolution`; `offset` is not passed)")

# Trusted glue: the distance `np.linalg.norm(c.xyz() - n.xyz())` of two nodes is the function parameter `dist` of their row indices (no square root in K).
spec(lean="raster_leave", module="AlgoRaster", file=_RA_FILE, cls="ToImageStack", func="_get_scene", nested="leave",
     params=["n", "children"], num_tparams=["K"], fparams=[_RA_DIST], captures=["scene", "xyz", "rs"], tree_cols={"x": {"r": "rs", "xyz": "xyz"}},
     vars={"n": "Node@x", "children": "List Node@x", "c": "Node@x", "big": "Node@x", "sdf": "Sdf K", "scene": "List (Sdf K)",
           "xyz": "List (List K)", "rs": "List K"},
     ret="Node@x", subst={"np.linalg.norm(c.xyz() - n.xyz())": ("(dist v.c v.n)", "K")},
     doc="`swcgeom/transforms/image_stack.py::ToImageStack._get_scene`, nested `leave` (the scene is the list of its solids; `n`, `c` are node handles of "
         "the tree whose radius / coordinate columns are `rs`, `xyz`; `np.linalg.norm(c.xyz() - n.xyz())` is `dist c n`)")
# Trusted glue: the material / background / BVH statements have no effect on the list of solids (skipped).
spec(lean="raster_get_scene", module="AlgoRaster", file=_RA_FILE, cls="ToImageStack", func="_get_scene", callee=["self._get_scene"],
     params=["ids", "pids", "xyz", "rs"], num_tparams=["K"], fparams=[_RA_DIST], tree_cols=_RA_X, closures={"leave": "raster_leave"}, fuel=True,
     vars={"ids": "List Int", "pids": "List Int", "xyz": "List (List K)", "rs": "List K", "scene": "List (Sdf K)"}, ret="List (Sdf K)",
     skip_stmts=["material = ColoredMaterial((1, 0, 0)).into()", "scene.set_background((0, 0, 0))", "scene.build_bvh()"],
     doc="`swcgeom/transforms/image_stack.py::ToImageStack._get_scene` (the tree is its columns `ids`, `pids`, `xyz`, `rs`; the scene is the list of the "
         "solids added to it; `x.traverse(leave=leave)` is the TRANSLATED `Tree.traverse`)")
FRONT_CALLERS.add("raster_get_scene")

# Trusted glue: `x.xyz()` / `x.r()` are the column parameters; `sampler.sample(scene)` is the state-passing callback `sample sampler scene` (sdflit);
# `(255 * voxel[..., 0, 0]).astype(np.uint8)` is the pure function `toFrame voxel`; `self.resolution` is the parameter `resolution`.
spec(lean="raster_transform", module="AlgoRaster", file=_RA_FILE, cls="ToImageStack", func="transform",
     params=["ids", "pids", "x_xyz", "x_r", "resolution"], absent=["verbose", "ranges"], tparams=["σ", "ψ", "φ"], num_tparams=["K"],
     fparams=[_RA_F, _RA_G, _RA_DIST, "(toFrame : ψ → φ)"], fuel=True, tree_cols={"x": {"id": "ids", "pid": "pids", "r": "x_r", "xyz": "x_xyz"}},
     callbacks={"sample": ("(sample : σ → Py.RangeSampler K → List (Py.Sdf K) → σ × ψ)", 2, "ψ")},
     vars={"ids": "List Int", "pids": "List Int", "x_xyz": "List (List K)", "x_r": "List K", "resolution": "List K", "scene": "List (Sdf K)",
           "xyz": "List (List K)", "r": "Col K", "coord_min": "List K", "coord_max": "List K", "samplers": "List (RangeSampler K)",
           "sampler": "RangeSampler K", "voxel": "ψ", "frame": "φ", "yielded_": "List φ"},
     ret="Unit", out=["yielded_"],
     subst={"self.resolution": ("v.resolution", "List K"), "x.xyz()": ("v.x_xyz", "List (List K)"), "x.r()": ("v.x_r", "List K"),
            "(255 * voxel[..., 0, 0]).astype(np.uint8)": ("(toFrame v.voxel)", "φ")},
     stmt_subst={"voxel = sampler.sample(scene)": "voxel = sample(sampler, scene)"},
     doc="`swcgeom/transforms/image_stack.py::ToImageStack.transform`, the instantiation `verbose` falsy / `ranges` not passed (what `__call__` does): "
         "the tree is its columns `ids`, `pids`, `x_xyz`, `x_r`; a generator = the list `yielded_` of its frames; `sampler.sample(scene)` is the callback "
         "`sample`, `(255 * voxel[..., 0, 0]).astype(np.uint8)` the function `toFrame`")
