# C02 / C01 (T37 `readfront`): the FRONT END of the SWC reader  ->  Gen/AlgoReadFront.lean
#   swcgeom/utils/file.py::detect_encoding            (chardet's answer is the parameter `chardet_` = (result["encoding"], result["confidence"]))
#   swcgeom/utils/file.py::FileReader.__init__        (str / bytes / path vs stream dispatch, `encoding == "detect"` -> detect_encoding)
#   swcgeom/utils/file.py::FileReader.__enter__       (TextIOWrapper for a binary stream, `open` for a name, the caller's own text stream)
#   swcgeom/core/swc_utils/io.py::parse_swc           the statement `extras = list(extra_cols) if extra_cols else []` (segment)
#   swcgeom/core/swc_utils/base.py::SWCNames.cols, get_names
#   swcgeom/core/swc_utils/io.py::read_swc            first half (segment): `names = get_names(names)`, the call of `parse_swc` (an EXTERNAL
#                                                     function parameter `parse_swc_`; in the composition it is the generated parse_swc pipeline)
#
# New constructs (GENERAL Python idioms; their meaning is lean/SwcVerif/Model/PyReadFront.lean), added through the extension hooks:
#   isinstance(x, TextIOBase) / isinstance(x, BytesIO)   on a `PathOrIO` value (`PySrc` = Py.Src) and on an optional one (`self.fb`)
#   x.encoding                                           of a PySrc: the encoding of a text stream, AttributeError (none) otherwise
#   TextIOWrapper(b, encoding=e)                         Py.Src.wrap  (a BytesIO -> the wrapped text stream, anything else raises)
#   open(p, 'r', encoding=e, **kw)                       Py.Src.openR (a name -> the opened text file, a stream object raises)
#   "literal"  stored into a PathOrIO slot               Py.Src.path "literal"   (a str IS a PathOrIO: the name of a file)
#   x or "lit"  (x an optional str)                      Py.strOr
#   A if xs else B  (xs an optional list)                truthiness of None / [] is false (Py.optListTruthy); `list(xs)` = Py.optList
#   a.x, b.y, c.z = K1, K2, K3  (constants)              the single assignments in order
#   f"…{e}…" (e a str / int), sep.join(xs)              concatenation (Py.strInt for an int), Py.strJoin
#   re.compile(p)                                        the pattern text `p` (a compiled pattern is represented by its text)
#   x or y  (x an optional NamedTuple with fields)        `x` unless it is None (a non-empty tuple is true): Option.getD
#   f(a, k=b, …) with f an EXTERNAL function (EXT_FNS)   the arguments are bound to the parameters of f's OWN `def` in the current source (positional,
#                                                        keyword, defaults `None` / str literals), and handed to the pure parameter `f_` in that order
#   p = g(p)  (p a parameter re-bound to another type)  the parameter enters with its declared version (`names#2` is the re-bound one)
#   isinstance(x, str) / os.path.abspath(x)  (x a PathOrIO)   Py.Src.isStr / the pure parameter `abspath` on Py.Src.strName
#   a, b = g(x, **kw) / return g(…)  with g a RAISING external function (EXT_RAISING: pure parameter returning `Except Py.Exc T`)
#                                                        the statement raises the exception g raised, else binds / returns the value;
#                                                        `**kw` is handed over as ONE value (the keyword bundle)
#   xs.extend(g)  (xs a list variable, g a generator)    xs = xs ++ list(g)
#   f(args) where the callee has WORLD parameters        (name ends in `_`: the answer of an external library / the warnings log): the caller's
#                                                        variable of the same name is passed (and written back if it is an out-parameter)
#
# TRUSTED GLUE (a change of the source text makes the key miss = translator failure):
#   detect_encoding:  skip   `import chardet`
#                     stmt_subst  `data = fname.read()`, `fname.seek(0, 0)`, `with open(fname, 'rb') as f: data = f.read()` -> pass
#                                 (the bytes only feed chardet, whose answer is the parameter)
#                     subst  `chardet.detect(data)` -> chardet_ ; `result['encoding']` -> its first, `result['confidence']` -> its second component
#   FileReader:       `self.kwargs` is `Unit` (keyword arguments handed through to `open`)
#   parse_swc (segment): none
#   parse_swc (prologue segment): subst `RE_FLOAT` -> Gen.Consts.reFloat (the module constant, extracted on every run), `int` -> 0, `float` -> 1
#                     (the conversion applied to a column = the dtype pandas infers for it: 0 = int64, 1 = float64)
#   Tree.from_swc:    `read_swc` / `cls.from_data_frame` are the raising pure parameters `read_swc_` / `from_data_frame_`; `os.path.abspath` is
#                     the pure parameter `abspath`; `**kwargs` is one opaque value
#   Tree.from_eswc (segment: the two `extra_cols` statements): subst `eswc_cols` -> the list of (name, type name) pairs read from core/swc.py on every run
#   SWCNames.cols:    none (`SWCNames` is the record of its seven fields)
#   get_names:        subst  `swc_names` -> the record of the defaults of the class (Gen/Consts.lean `name_*`, extracted from SWCNames on every run)
#   read_swc (segment):  `parse_swc` is the pure parameter `parse_swc_ : fname -> names -> extra_cols -> encoding -> Option (DF × CM)`
MODULE_MODEL_IMPORTS["AlgoReadFront"] = ["PyReadFront", "PyWriter"]
MODULE_IMPORTS["AlgoReadFront"] = ["Consts"]
STRUCTS["FileReaderFull"] = {"fname": "PySrc", "fb": "Option PySrc", "f": "Option PySrc", "encoding": "String", "kwargs": "Unit"}
STRUCTS["SWCNames7"] = {k: "String" for k in ["id", "type", "x", "y", "z", "r", "pid"]}
MODULE_STRUCTS["AlgoReadFront"] = ["FileReaderFull", "SWCNames7"]

# EXTERNAL functions handed in as pure parameters: python callee text -> (lean parameter name, file, function, lean result type);
# a call is bound to the parameters of the callee's own `def` (read from the current source)
EXT_FNS = {"parse_swc": ("parse_swc_", "swcgeom/core/swc_utils/io.py", "parse_swc", "DF × CM")}


def _rf_ext_call(tr, e, f):
    pname, file, func, rty = EXT_FNS[f]
    if pname not in [b.split()[0].strip("(") for b in tr.spec.fparams]:
        return None
    p = REPO / file
    if p not in _AST_CACHE:
        _AST_CACHE[p] = ast.parse(p.read_text())
    a = find_def(_AST_CACHE[p], None, func).args
    if a.vararg or a.kwarg:
        raise Untranslatable(f"{tr.spec.lean}: external callee `{f}` with *args / **kwargs")
    pos = a.posonlyargs + a.args
    dflt = {x.arg: d for x, d in zip(pos[len(pos) - len(a.defaults):], a.defaults)}
    dflt.update({x.arg: d for x, d in zip(a.kwonlyargs, a.kw_defaults) if d is not None})
    if len(e.args) > len(pos) or any(k.arg is None for k in e.keywords):
        raise Untranslatable(f"{tr.spec.lean}: call `{ast.unparse(e)}`")
    bound = {x.arg: v for x, v in zip(pos, e.args)}
    for k in e.keywords:
        if k.arg in bound or k.arg not in [x.arg for x in pos + a.kwonlyargs]:
            raise Untranslatable(f"{tr.spec.lean}: keyword `{k.arg}` in `{ast.unparse(e)}`")
        bound[k.arg] = k.value
    steps, codes = [], []
    for x in pos + a.kwonlyargs:
        v = bound.get(x.arg, dflt.get(x.arg))
        if v is None:
            raise Untranslatable(f"{tr.spec.lean}: parameter `{x.arg}` of `{f}` is not bound in `{ast.unparse(e)}`")
        want = {"extra_cols": ("Option", ("List", "String")), "encoding": "String"}.get(x.arg)
        s0, c, t = tr.tr(v, want)
        if want is not None and t != want:
            c = tr.coerce(c, t, want)
        steps += s0; codes.append(c)
    n = tr.bindname()
    return steps + [f"Py.bind ({pname} {' '.join(codes)}) fun {n} =>"], n, parse_type(rty)

_RF_FILE = "swcgeom/utils/file.py"
_RF_OPT_SRC = ("Option", "PySrc")


def _rf_show(t):
    if t == "PySrc":
        return "Py.Src"
    return None


SHOW_TYPE_HOOKS.append(_rf_show)


def _rf_world_params(callee):
    return [p for p in callee.params if p.endswith("_")]


def _rf_expr(tr, e, want):
    # a str literal where a PathOrIO is expected
    if isinstance(e, ast.Constant) and isinstance(e.value, str) and want == "PySrc":
        return [], f"(Py.Src.path {json.dumps(e.value)})", "PySrc"
    if isinstance(e, ast.JoinedStr):
        steps, parts = [], []
        for p in e.values:
            if isinstance(p, ast.Constant) and isinstance(p.value, str):
                parts.append(lean_string(p.value))
            elif isinstance(p, ast.FormattedValue) and p.conversion == -1 and p.format_spec is None:
                s0, c, t = tr.tr(p.value)
                if t not in ("String", "Int"):
                    return None
                steps += s0; parts.append(c if t == "String" else f"(Py.strInt {c})")
            else:
                return None
        return steps, "(" + " ++ ".join(parts or ['""']) + ")", "String"
    if isinstance(e, ast.Call) and isinstance(e.func, ast.Attribute) and e.func.attr == "join" and len(e.args) == 1 and not e.keywords:
        s0, c, t = tr.tr(e.func.value)
        s1, c1, t1 = tr.tr(e.args[0])
        if t == "String" and t1 == ("List", "String"):
            return s0 + s1, f"(Py.strJoin {c} {c1})", "String"
        return None
    if isinstance(e, ast.Call):
        f = ast.unparse(e.func)
        if f == "isinstance" and len(e.args) == 2 and not e.keywords and ast.unparse(e.args[1]) in ("TextIOBase", "BytesIO"):
            s0, c, t = tr.tr(e.args[0])
            k = ast.unparse(e.args[1])
            if t == "PySrc":
                return s0, f"(Py.Src.{'isText' if k == 'TextIOBase' else 'isBytes'} {c})", "Bool"
            if t == _RF_OPT_SRC and k == "BytesIO":
                return s0, f"(Py.Src.optIsBytes {c})", "Bool"
            return None
        if f == "TextIOWrapper" and len(e.args) == 1 and [k.arg for k in e.keywords] == ["encoding"]:
            s0, c, t = tr.tr(e.args[0])
            s1, c1, t1 = tr.tr(e.keywords[0].value)
            if t == "PySrc":
                c = f"(some {c})"
            elif t != _RF_OPT_SRC:
                return None
            if t1 != "String":
                return None
            n = tr.bindname()
            return s0 + s1 + [f"Py.bind (Py.Src.wrap {c} {c1}) fun {n} =>"], n, "PySrc"
        if (f == "open" and len(e.args) == 2 and isinstance(e.args[1], ast.Constant) and e.args[1].value == "r"
                and [k.arg for k in e.keywords] == ["encoding", None]):
            s0, c, t = tr.tr(e.args[0])
            s1, c1, t1 = tr.tr(e.keywords[0].value)
            s2, _, t2 = tr.tr(e.keywords[1].value)
            if t != "PySrc" or t1 != "String" or t2 != "Unit":
                return None
            n = tr.bindname()
            return s0 + s1 + s2 + [f"Py.bind (Py.Src.openR {c} {c1}) fun {n} =>"], n, "PySrc"
        if f == "list" and len(e.args) == 1 and not e.keywords:
            s0, c, t = tr.tr(e.args[0])
            if isinstance(t, tuple) and t[0] == "Option" and isinstance(t[1], tuple) and t[1][0] == "List":
                n = tr.bindname()
                return s0 + [f"Py.bind (Py.optList {c}) fun {n} =>"], n, t[1]
            return None
        if f == "isinstance" and len(e.args) == 2 and ast.unparse(e.args[1]) == "str":
            s0, c, t = tr.tr(e.args[0])
            return (s0, f"(Py.Src.isStr {c})", "Bool") if t == "PySrc" else None
        if f == "os.path.abspath" and len(e.args) == 1 and not e.keywords and "abspath" in [b.split()[0].strip("(") for b in tr.spec.fparams]:
            s0, c, t = tr.tr(e.args[0])
            if t != "PySrc":
                return None
            n = tr.bindname()
            return s0 + [f"Py.bind (Py.Src.strName {c}) fun {n} =>"], f"(abspath {n})", "String"
        if f == "re.compile" and len(e.args) == 1 and not e.keywords:
            s0, c, t = tr.tr(e.args[0])            # a compiled pattern is represented by its pattern text
            return (s0, c, t) if t == "String" else None
        if f in EXT_FNS:
            return _rf_ext_call(tr, e, f)
        callee = tr.table.get(f)
        if callee is not None and callee is not tr.spec:
            wp = [p for p in _rf_world_params(callee) if p not in [k.arg for k in e.keywords]]
            if wp and all(p in tr.vars for p in wp):
                new = ast.Call(e.func, list(e.args), list(e.keywords) + [ast.keyword(p, ast.Name(p, ast.Load())) for p in wp])
                ast.copy_location(new, e); ast.fix_missing_locations(new)
                return tr.e_Call(new, want)
        return None
    if isinstance(e, ast.Attribute) and e.attr == "encoding" and isinstance(e.value, ast.Name):
        if tr.vars.get(e.value.id) == "PySrc":
            s0, c, _ = tr.tr(e.value)
            n = tr.bindname()
            return s0 + [f"Py.bind (Py.Src.encoding {c}) fun {n} =>"], n, "String"
        return None
    if isinstance(e, ast.BoolOp) and isinstance(e.op, ast.Or) and len(e.values) == 2:
        s0, c, t = tr.tr(e.values[0])
        s1, c1, t1 = tr.tr(e.values[1])
        if t == ("Option", "String") and t1 == "String" and not s1:
            return s0, f"(Py.strOr {c} {c1})", "String"
        if isinstance(t, tuple) and t[0] == "Option" and t[1] == t1 and isinstance(t1, str) and STRUCTS.get(t1) and not s1:
            return s0, f"(({c}).getD {c1})", t1
        return None
    if isinstance(e, ast.IfExp):
        s0, c, t = tr.tr(e.test)
        if isinstance(t, tuple) and t[0] == "Option" and isinstance(t[1], tuple) and t[1][0] == "List":
            sa, ca, ta = tr.tr(e.body, want)
            sb, cb, tb = tr.tr(e.orelse, ta)
            if ta != tb:
                return None
            n = tr.bindname()
            return s0 + [f"Py.bind (if Py.optListTruthy {c} then {tr.opt_block(sa, ca)} else {tr.opt_block(sb, cb)}) fun {n} =>"], n, ta
        if want is None and isinstance(e.orelse, ast.List) and not e.orelse.elts:
            # `A if c else []`: the empty list has the type of A
            sa, ca, ta = tr.tr(e.body)
            sb, cb, tb = tr.tr(e.orelse, ta)
            if ta != tb:
                return None
            n = tr.bindname()
            return s0 + [f"Py.bind (if {tr.as_bool(c, t)} then {tr.opt_block(sa, ca)} else {tr.opt_block(sb, cb)}) fun {n} =>"], n, ta
        return None
    return None


# RAISING external functions: python callee text -> (lean pure parameter, number of positional arguments, keyword names in order, takes **kw)
EXT_RAISING = {"read_swc": ("read_swc_", 1, [], True), "cls.from_data_frame": ("from_data_frame_", 1, ["source", "comments"], False)}


def _rf_raising_call(tr, e):
    """(steps, lean term of type `Except Py.Exc T`) of a call of a raising external function, or None"""
    if not isinstance(e, ast.Call) or ast.unparse(e.func) not in EXT_RAISING:
        return None
    pname, npos, kws, bundle = EXT_RAISING[ast.unparse(e.func)]
    if pname not in [b.split()[0].strip("(") for b in tr.spec.fparams]:
        return None
    named = [k for k in e.keywords if k.arg is not None]
    star = [k for k in e.keywords if k.arg is None]
    if len(e.args) != npos or [k.arg for k in named] != kws or len(star) != (1 if bundle else 0):
        raise Untranslatable(f"{tr.spec.lean}: call `{ast.unparse(e)}` of the external function")
    steps, codes = [], []
    for x in list(e.args) + [k.value for k in named] + [k.value for k in star]:
        s0, c, _ = tr.tr(x)
        steps += s0; codes.append(c)
    return steps, f"({pname} {' '.join(codes)})"


def _rf_stmt(tr, s):
    if isinstance(s, (ast.Assign, ast.Return)) and tr.spec.raises:
        r = _rf_raising_call(tr, s.value)
        if r is not None:
            steps, call = r
            if isinstance(s, ast.Return):
                return tr.chain(steps, f"match {call} with | .error e_ => Py.raise e_ v | .ok r_ => .ret v (.ok r_)")
            tgt = s.targets[0]
            if len(s.targets) == 1 and isinstance(tgt, ast.Tuple) and len(tgt.elts) == 2 and all(isinstance(x, ast.Name) for x in tgt.elts):
                a, b = (lname(x.id) for x in tgt.elts)
                return tr.chain(steps, f"match {call} with | .error e_ => Py.raise e_ v | .ok r_ => .next {{ v with {a} := r_.1, {b} := r_.2 }}")
            raise Untranslatable(f"{tr.spec.lean}: `{ast.unparse(s)}`")
    # xs.extend(generator)
    if (isinstance(s, ast.Expr) and isinstance(s.value, ast.Call) and isinstance(s.value.func, ast.Attribute) and s.value.func.attr == "extend"
            and isinstance(s.value.func.value, ast.Name) and len(s.value.args) == 1 and not s.value.keywords
            and isinstance(s.value.args[0], (ast.GeneratorExp, ast.ListComp))):
        g = s.value.args[0]
        lc = ast.ListComp(g.elt, g.generators)
        new = ast.Assign([ast.Name(s.value.func.value.id, ast.Store())],
                         ast.BinOp(ast.Name(s.value.func.value.id, ast.Load()), ast.Add(), lc))
        ast.copy_location(new, s); ast.fix_missing_locations(new)
        return tr.stmt(new)
    # a PARAMETER that is re-bound to a value of another type (`names = get_names(names)`) enters with its declared (first) version
    todo = [n for n in tr.versions if tr.cur.get(n) is None and n in tr.spec.params]
    if todo:
        for n in todo:
            tr.cur[n] = n
        return tr.stmt(s)
    if (isinstance(s, ast.Assign) and len(s.targets) == 1 and isinstance(s.targets[0], ast.Tuple) and isinstance(s.value, ast.Tuple)
            and len(s.targets[0].elts) == len(s.value.elts) and all(isinstance(x, ast.Constant) for x in s.value.elts)):
        new = []
        for t, x in zip(s.targets[0].elts, s.value.elts):
            a = ast.Assign([t], x)
            ast.copy_location(a, s); ast.fix_missing_locations(a)
            new.append(a)
        return tr.block(new)
    return None


EXPR_HOOKS.append(_rf_expr)
STMT_HOOKS.append(_rf_stmt)

_RF_CHARDET = "(Option String) × F"
spec(lean="detect_encoding", module="AlgoReadFront", file=_RF_FILE, func="detect_encoding", callee=["detect_encoding"],
     params=["fname", "low_confidence", "chardet_", "warnings_"], num_tparams=["F"],
     vars={"fname": "PySrc", "low_confidence": "F", "chardet_": _RF_CHARDET, "warnings_": "List Int", "result": _RF_CHARDET,
           "encoding": "String"},
     ret="String", out=["warnings_"],
     skip_stmts=["import chardet"],
     stmt_subst={"data = fname.read()": "pass", "fname.seek(0, 0)": "pass", "with open(fname, 'rb') as f:\n    data = f.read()": "pass"},
     subst={"chardet.detect(data)": ("v.chardet_", _RF_CHARDET), "result['encoding']": ("v.result.1", "Option String"),
            "result['confidence']": ("v.result.2", "F")},
     doc="`swcgeom/utils/file.py::detect_encoding` (chardet's answer `(encoding, confidence)` is the parameter `chardet_`; the warning issued is "
         "returned as a call-site number in `warnings_`)")

spec(lean="file_reader_init", module="AlgoReadFront", file=_RF_FILE, cls="FileReader", func="__init__",
     params=["self", "fname", "encoding", "low_confidence", "kwargs", "chardet_", "warnings_"], num_tparams=["F"],
     vars={"self": "FileReaderFull", "fname": "PySrc", "encoding": "String", "low_confidence": "F", "kwargs": "Unit",
           "chardet_": _RF_CHARDET, "warnings_": "List Int"},
     ret="Unit", out=["self", "warnings_"],
     doc="`swcgeom/utils/file.py::FileReader.__init__` (`fname` is a `Py.Src`; chardet's answer is the parameter `chardet_`)")

spec(lean="file_reader_enter", module="AlgoReadFront", file=_RF_FILE, cls="FileReader", func="__enter__",
     params=["self"], vars={"self": "FileReaderFull"}, ret="Option PySrc", out=["self"],
     doc="`swcgeom/utils/file.py::FileReader.__enter__` (returns `self.f`: the caller's text stream, the `TextIOWrapper` of the caller's "
         "binary stream, or the file opened by name)")

spec(lean="parse_swc_extras", module="AlgoReadFront", file="swcgeom/core/swc_utils/io.py", func="parse_swc",
     params=["extra_cols"], vars={"extra_cols": "Option (List String)", "extras": "List String"}, ret="Unit", out=["extras"],
     seg_from="extras = list(extra_cols) if extra_cols else []", seg_to="extras = list(extra_cols) if extra_cols else []",
     doc="`swcgeom/core/swc_utils/io.py::parse_swc`, the statement `extras = list(extra_cols) if extra_cols else []` (`extra_cols` is None or a list)")

_RF_BASE = "swcgeom/core/swc_utils/base.py"
spec(lean="swc_names_cols", module="AlgoReadFront", file=_RF_BASE, cls="SWCNames", func="cols", callee=["names.cols"], params=["self"], vars={"self": "SWCNames7"},
     ret="List String", doc="`swcgeom/core/swc_utils/base.py::SWCNames.cols`")

_RF_DEFAULT_NAMES = "({ id := Gen.Consts.name_id, type := Gen.Consts.name_type, x := Gen.Consts.name_x, y := Gen.Consts.name_y, " \
                    "z := Gen.Consts.name_z, r := Gen.Consts.name_r, pid := Gen.Consts.name_pid } : SWCNames7)"
spec(lean="parse_swc_prologue", module="AlgoReadFront", file="swcgeom/core/swc_utils/io.py", func="parse_swc",
     seg_from="transforms = [int, int, float, float, float, float, int] + [float for _ in extras]",
     seg_to="ignored_comment = ' '.join(names.cols())",
     params=["names", "extras"],
     vars={"names": "SWCNames7", "extras": "List String", "transforms": "List Int", "re_swc_cols": "List String", "re_swc_cols_str": "String",
           "re_swc": "String", "last_group": "Int", "ignored_comment": "String"},
     ret="Unit", out=["transforms", "re_swc", "last_group", "ignored_comment"],
     subst={"RE_FLOAT": ("Gen.Consts.reFloat", "String"), "int": ("(0 : Int)", "Int"), "float": ("(1 : Int)", "Int")},
     doc="`swcgeom/core/swc_utils/io.py::parse_swc`, the prologue from `transforms = …` to `ignored_comment = …`: the conversion per column "
         "(0 = `int`, 1 = `float`), the TEXT of the regular expression as a function of the extra columns, the number of the trailing group, "
         "the column header that is not kept as a comment")

spec(lean="get_names", module="AlgoReadFront", file=_RF_BASE, func="get_names", callee=["get_names"], params=["names"],
     vars={"names": "Option SWCNames7"}, ret="SWCNames7", subst={"swc_names": (_RF_DEFAULT_NAMES, "SWCNames7")},
     doc="`swcgeom/core/swc_utils/base.py::get_names` (`swc_names` = `SWCNames()` is the record of the class defaults)")

spec(lean="read_swc_front", module="AlgoReadFront", file="swcgeom/core/swc_utils/io.py", func="read_swc",
     seg_from="names = get_names(names)", seg_to="df, comments = parse_swc(swc_file, names=names, extra_cols=extra_cols, encoding=encoding)",
     params=["swc_file", "extra_cols", "encoding", "names"], tparams=["DF", "CM"],
     fparams=["(parse_swc_ : Py.Src → SWCNames7 → (Option (List String)) → String → Option (DF × CM))"],
     vars={"swc_file": "PySrc", "extra_cols": "Option (List String)", "encoding": "String", "names": "Option SWCNames7", "names#2": "SWCNames7",
           "df": "DF", "comments": "CM"},
     ret="Unit", out=["names#2", "df", "comments"],
     doc="`swcgeom/core/swc_utils/io.py::read_swc`, first half: `names = get_names(names)` and the call of `parse_swc` (the pure parameter "
         "`parse_swc_`, its arguments bound to the parameters of parse_swc's own `def`)")

_RF_TREE = "swcgeom/core/tree.py"
spec(lean="tree_from_swc", module="AlgoReadFront", file=_RF_TREE, cls="Tree", func="from_swc", raises=True,
     params=["swc_file", "kwargs"], tparams=["KW", "DF", "CM", "T"],
     fparams=["(read_swc_ : Py.Src → KW → Except Py.Exc (DF × CM))", "(from_data_frame_ : DF → String → CM → Except Py.Exc T)",
              "(abspath : String → String)"],
     vars={"swc_file": "PySrc", "kwargs": "KW", "df": "DF", "comments": "CM", "source": "String", "e": "Exc"},
     ret="T",
     doc="`swcgeom/core/tree.py::Tree.from_swc` (`read_swc`, `cls.from_data_frame`, `os.path.abspath` are pure parameters; `**kwargs` is one value)")


def _rf_eswc_cols():
    """the module constant `eswc_cols` of core/swc.py as a Lean list of (name, type name) pairs, read from the current source"""
    tree = ast.parse((REPO / "swcgeom/core/swc.py").read_text())
    for nd in tree.body:
        tgt = nd.targets[0] if isinstance(nd, ast.Assign) else (nd.target if isinstance(nd, ast.AnnAssign) else None)
        if isinstance(tgt, ast.Name) and tgt.id == "eswc_cols":
            pairs = [(x.elts[0].value, ast.unparse(x.elts[1])) for x in nd.value.elts]
            return "[" + ", ".join(f"({json.dumps(a)}, {json.dumps(b)})" for a, b in pairs) + "]"
    raise Untranslatable("eswc_cols not found")


spec(lean="from_eswc_extras", module="AlgoReadFront", file=_RF_TREE, cls="Tree", func="from_eswc",
     seg_from="extra_cols = list(extra_cols) if extra_cols is not None else []", seg_to="extra_cols.extend((k for k, t in eswc_cols))",
     params=["extra_cols"], vars={"extra_cols": "Option (List String)", "extra_cols#2": "List String", "k": "String", "t": "String"},
     ret="Unit", out=["extra_cols#2"],
     subst={"eswc_cols": (_rf_eswc_cols(), "List (String × String)")},
     doc="`swcgeom/core/tree.py::Tree.from_eswc`, the two statements that build the `extra_cols` handed to `from_swc` (`eswc_cols` is the module "
         "constant of core/swc.py, read on every run)")
