# C02 / C01 (T37 `readfront`): the FRONT END of the SWC reader  ->  Gen/AlgoReadFront.lean
#   swcgeom/utils/file.py::detect_encoding            (chardet's answer is the parameter `chardet_` = (result["encoding"], result["confidence"]))
#   swcgeom/utils/file.py::FileReader.__init__        (str / bytes / path vs stream dispatch, `encoding == "detect"` -> detect_encoding)
#   swcgeom/utils/file.py::FileReader.__enter__       (TextIOWrapper for a binary stream, `open` for a name, the caller's own text stream)
#   swcgeom/core/swc_utils/io.py::parse_swc           the statement `extras = list(extra_cols) if extra_cols else []` (segment)
#
# New constructs (GENERAL Python idioms; their meaning is lean/SwcVerif/Model/PyReadFront.lean), added through the extension hooks:
#   isinstance(x, TextIOBase) / isinstance(x, BytesIO)   on a `PathOrIO` value (`PySrc` = Py.Src) and on an optional one (`self.fb`)
#   x.encoding                                           of a PySrc: the encoding of a text stream, AttributeError (none) otherwise
#   TextIOWrapper(b, encoding=e)                         Py.Src.wrap  (a BytesIO -> the wrapped text stream, anything else raises)
#   open(p, 'r', encoding=e, **kw)                       Py.Src.openR (a name -> the opened text file, a stream object raises)
#   "literal"  stored into a PathOrIO slot               Py.Src.path "literal"   (a str IS a PathOrIO: the name of a file)
#   x or "lit"  (x an optional str)                      Py.strOr
#   A if xs else B  (xs an optional list)                truthiness of None / [] is false (Py.optListTruthy); `list(xs)` = Py.optList
#   a.x, b.y, c.z = K1, K2, K3  (constants)              the single assignments in order
#   f(args) where the callee has WORLD parameters        (name ends in `_`: the answer of an external library / the warnings log): the caller's
#                                                        variable of the same name is passed (and written back if it is an out-parameter)
#
# TRUSTED GLUE (a change of the source text makes the key miss = translator failure):
#   detect_encoding:  skip   `import chardet`
#                     stmt_subst  `data = fname.read()`, `fname.seek(0, 0)`, `with open(fname, 'rb') as f: data = f.read()` -> pass
#                                 (the bytes only feed chardet, whose answer is the parameter)
#                     subst  `chardet.detect(data)` -> chardet_ ; `result['encoding']` -> its first, `result['confidence']` -> its second component
#   FileReader:       `self.kwargs` is `Unit` (keyword arguments handed through to `open`)
#   parse_swc (segment): none
MODULE_MODEL_IMPORTS["AlgoReadFront"] = ["PyReadFront"]
STRUCTS["FileReaderFull"] = {"fname": "PySrc", "fb": "Option PySrc", "f": "Option PySrc", "encoding": "String", "kwargs": "Unit"}
MODULE_STRUCTS["AlgoReadFront"] = ["FileReaderFull"]

_RF_FILE = "swcgeom/utils/file.py"
_RF_OPT_SRC = ("Option", "PySrc")


def _rf_show(t):
    if t == "PySrc":
        return "Py.Src"
    return None


SHOW_TYPE_HOOKS.append(_rf_show)


def _rf_world_params(callee):
    return [p for p in callee.params if p.endswith("_")]


def _rf_expr(tr, e, want):
    # a str literal where a PathOrIO is expected
    if isinstance(e, ast.Constant) and isinstance(e.value, str) and want == "PySrc":
        return [], f"(Py.Src.path {json.dumps(e.value)})", "PySrc"
    if isinstance(e, ast.Call):
        f = ast.unparse(e.func)
        if f == "isinstance" and len(e.args) == 2 and not e.keywords and ast.unparse(e.args[1]) in ("TextIOBase", "BytesIO"):
            s0, c, t = tr.tr(e.args[0])
            k = ast.unparse(e.args[1])
            if t == "PySrc":
                return s0, f"(Py.Src.{'isText' if k == 'TextIOBase' else 'isBytes'} {c})", "Bool"
            if t == _RF_OPT_SRC and k == "BytesIO":
                return s0, f"(Py.Src.optIsBytes {c})", "Bool"
            return None
        if f == "TextIOWrapper" and len(e.args) == 1 and [k.arg for k in e.keywords] == ["encoding"]:
            s0, c, t = tr.tr(e.args[0])
            s1, c1, t1 = tr.tr(e.keywords[0].value)
            if t == "PySrc":
                c = f"(some {c})"
            elif t != _RF_OPT_SRC:
                return None
            if t1 != "String":
                return None
            n = tr.bindname()
            return s0 + s1 + [f"Py.bind (Py.Src.wrap {c} {c1}) fun {n} =>"], n, "PySrc"
        if (f == "open" and len(e.args) == 2 and isinstance(e.args[1], ast.Constant) and e.args[1].value == "r"
                and [k.arg for k in e.keywords] == ["encoding", None]):
            s0, c, t = tr.tr(e.args[0])
            s1, c1, t1 = tr.tr(e.keywords[0].value)
            s2, _, t2 = tr.tr(e.keywords[1].value)
            if t != "PySrc" or t1 != "String" or t2 != "Unit":
                return None
            n = tr.bindname()
            return s0 + s1 + s2 + [f"Py.bind (Py.Src.openR {c} {c1}) fun {n} =>"], n, "PySrc"
        if f == "list" and len(e.args) == 1 and not e.keywords:
            s0, c, t = tr.tr(e.args[0])
            if isinstance(t, tuple) and t[0] == "Option" and isinstance(t[1], tuple) and t[1][0] == "List":
                n = tr.bindname()
                return s0 + [f"Py.bind (Py.optList {c}) fun {n} =>"], n, t[1]
            return None
        callee = tr.table.get(f)
        if callee is not None and callee is not tr.spec:
            wp = [p for p in _rf_world_params(callee) if p not in [k.arg for k in e.keywords]]
            if wp and all(p in tr.vars for p in wp):
                new = ast.Call(e.func, list(e.args), list(e.keywords) + [ast.keyword(p, ast.Name(p, ast.Load())) for p in wp])
                ast.copy_location(new, e); ast.fix_missing_locations(new)
                return tr.e_Call(new, want)
        return None
    if isinstance(e, ast.Attribute) and e.attr == "encoding" and isinstance(e.value, ast.Name):
        if tr.vars.get(e.value.id) == "PySrc":
            s0, c, _ = tr.tr(e.value)
            n = tr.bindname()
            return s0 + [f"Py.bind (Py.Src.encoding {c}) fun {n} =>"], n, "String"
        return None
    if isinstance(e, ast.BoolOp) and isinstance(e.op, ast.Or) and len(e.values) == 2:
        s0, c, t = tr.tr(e.values[0])
        s1, c1, t1 = tr.tr(e.values[1])
        if t == ("Option", "String") and t1 == "String" and not s1:
            return s0, f"(Py.strOr {c} {c1})", "String"
        return None
    if isinstance(e, ast.IfExp):
        s0, c, t = tr.tr(e.test)
        if isinstance(t, tuple) and t[0] == "Option" and isinstance(t[1], tuple) and t[1][0] == "List":
            sa, ca, ta = tr.tr(e.body, want)
            sb, cb, tb = tr.tr(e.orelse, ta)
            if ta != tb:
                return None
            n = tr.bindname()
            return s0 + [f"Py.bind (if Py.optListTruthy {c} then {tr.opt_block(sa, ca)} else {tr.opt_block(sb, cb)}) fun {n} =>"], n, ta
        return None
    return None


def _rf_stmt(tr, s):
    if (isinstance(s, ast.Assign) and len(s.targets) == 1 and isinstance(s.targets[0], ast.Tuple) and isinstance(s.value, ast.Tuple)
            and len(s.targets[0].elts) == len(s.value.elts) and all(isinstance(x, ast.Constant) for x in s.value.elts)):
        new = []
        for t, x in zip(s.targets[0].elts, s.value.elts):
            a = ast.Assign([t], x)
            ast.copy_location(a, s); ast.fix_missing_locations(a)
            new.append(a)
        return tr.block(new)
    return None


EXPR_HOOKS.append(_rf_expr)
STMT_HOOKS.append(_rf_stmt)

_RF_CHARDET = "(Option String) × F"
spec(lean="detect_encoding", module="AlgoReadFront", file=_RF_FILE, func="detect_encoding", callee=["detect_encoding"],
     params=["fname", "low_confidence", "chardet_", "warnings_"], num_tparams=["F"],
     vars={"fname": "PySrc", "low_confidence": "F", "chardet_": _RF_CHARDET, "warnings_": "List Int", "result": _RF_CHARDET,
           "encoding": "String"},
     ret="String", out=["warnings_"],
     skip_stmts=["import chardet"],
     stmt_subst={"data = fname.read()": "pass", "fname.seek(0, 0)": "pass", "with open(fname, 'rb') as f:\n    data = f.read()": "pass"},
     subst={"chardet.detect(data)": ("v.chardet_", _RF_CHARDET), "result['encoding']": ("v.result.1", "Option String"),
            "result['confidence']": ("v.result.2", "F")},
     doc="`swcgeom/utils/file.py::detect_encoding` (chardet's answer `(encoding, confidence)` is the parameter `chardet_`; the warning issued is "
         "returned as a call-site number in `warnings_`)")

spec(lean="file_reader_init", module="AlgoReadFront", file=_RF_FILE, cls="FileReader", func="__init__",
     params=["self", "fname", "encoding", "low_confidence", "kwargs", "chardet_", "warnings_"], num_tparams=["F"],
     vars={"self": "FileReaderFull", "fname": "PySrc", "encoding": "String", "low_confidence": "F", "kwargs": "Unit",
           "chardet_": _RF_CHARDET, "warnings_": "List Int"},
     ret="Unit", out=["self", "warnings_"],
     doc="`swcgeom/utils/file.py::FileReader.__init__` (`fname` is a `Py.Src`; chardet's answer is the parameter `chardet_`)")

spec(lean="file_reader_enter", module="AlgoReadFront", file=_RF_FILE, cls="FileReader", func="__enter__",
     params=["self"], vars={"self": "FileReaderFull"}, ret="Option PySrc", out=["self"],
     doc="`swcgeom/utils/file.py::FileReader.__enter__` (returns `self.f`: the caller's text stream, the `TextIOWrapper` of the caller's "
         "binary stream, or the file opened by name)")

spec(lean="parse_swc_extras", module="AlgoReadFront", file="swcgeom/core/swc_utils/io.py", func="parse_swc",
     params=["extra_cols"], vars={"extra_cols": "Option (List String)", "extras": "List String"}, ret="Unit", out=["extras"],
     seg_from="extras = list(extra_cols) if extra_cols else []", seg_to="extras = list(extra_cols) if extra_cols else []",
     doc="`swcgeom/core/swc_utils/io.py::parse_swc`, the statement `extras = list(extra_cols) if extra_cols else []` (`extra_cols` is None or a list)")
