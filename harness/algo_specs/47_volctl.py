# C13 (T39 `volctl`): the CONTROL FLOW around the closed-form volumes of swcgeom/utils/volumetric_object.py and the solid-geometry helpers
#   ->  Gen/AlgoVolCtl.lean, over a numeric type parameter `K` (run at Rat by the driver).
share_hooks("AlgoLmGeo", "AlgoVolCtl")
MODULE_IMPORTS["AlgoVolCtl"] = []
MODULE_MODEL_IMPORTS["AlgoVolCtl"] = ["PyMore", "PyResample", "PyLmGeo", "PyVolCtl"]
_VO = "swcgeom/utils/volumetric_object.py"
_VC_F = "(F : Py.Fld K)"
_VC_PI = {"np.pi": ("v.pi", "K")}


def _vc_K(tr):
    return sorted(tr.num)[0] if len(tr.num) == 1 else None


def _vc_lit(e):
    return e.value if isinstance(e, ast.Constant) and isinstance(e.value, int) and not isinstance(e.value, bool) else None


def _vc_expr(tr, e, want):
    K = _vc_K(tr)
    if K is None:
        return None
    # (V1) `a / b` where one side is an int literal and the other an int literal or a float: the literal as a float, then true division (b = 0 raises)
    if isinstance(e, ast.BinOp) and isinstance(e.op, ast.Div) and (_vc_lit(e.left) is not None or _vc_lit(e.right) is not None):
        la, lb = _vc_lit(e.left), _vc_lit(e.right)
        steps, codes = [], []
        for x, l in ((e.left, la), (e.right, lb)):
            if l is not None:
                codes.append(f"(Py.Fld.ofInt ({l} : Int) : {K})")
            else:
                s0, c, t = tr.tr(x)
                if t != K:
                    return None
                steps += s0; codes.append(c)
        n = tr.bindname()
        return steps + [f"Py.bind (Py.fdiv {codes[0]} {codes[1]}) fun {n} =>"], n, K
    # (V2) abs(x), min(a, b), max(a, b) on floats
    if isinstance(e, ast.Call) and isinstance(e.func, ast.Name) and e.func.id in ("abs", "min", "max") and not e.keywords:
        n_ = {"abs": 1, "min": 2, "max": 2}[e.func.id]
        if len(e.args) != n_:
            return None
        steps, codes = [], []
        for x in e.args:
            s0, c, t = tr.tr(x, K)
            if t != K:
                return None
            steps += s0; codes.append(c)
        return steps, f"(Py.VC.{e.func.id}K {' '.join(codes)})", K
    # (V3) np.array(x) of a 1-d float array: a copy = the same list
    if isinstance(e, ast.Call) and ast.unparse(e.func) == "np.array" and len(e.args) == 1 and not e.keywords and not isinstance(e.args[0], ast.List):
        s0, c, t = tr.tr(e.args[0])
        return (s0, c, t) if t == ("List", K) else None
    # (V4) np.dot(a, b) of two 1-d float arrays; np.sqrt(x) (the pure parameter `sqrt`); np.allclose on two arrays / two scalars (pure parameters)
    if isinstance(e, ast.Call) and not e.keywords and ast.unparse(e.func) in ("np.dot", "np.sqrt", "np.allclose", "np.cross"):
        f = ast.unparse(e.func)
        steps, codes, ts = [], [], []
        for x in e.args:
            s0, c, t = tr.tr(x)
            steps += s0; codes.append(c); ts.append(t)
        fn = [b.split()[0].strip("(") for b in tr.spec.fparams]
        if f == "np.dot" and ts == [("List", K)] * 2:
            n = tr.bindname()
            return steps + [f"Py.bind (Py.VC.dot {codes[0]} {codes[1]}) fun {n} =>"], n, K
        if f == "np.cross" and ts == [("List", K)] * 2:
            n = tr.bindname()
            return steps + [f"Py.bind (Py.VC.cross {codes[0]} {codes[1]}) fun {n} =>"], n, ("List", K)
        if f == "np.sqrt" and ts == [K] and "sqrt" in fn:
            return steps, f"(sqrt {codes[0]})", K
        if f == "np.allclose" and ts == [("List", K)] * 2 and "allcloseV" in fn:
            return steps, f"(allcloseV {codes[0]} {codes[1]})", "Bool"
        if f == "np.allclose" and ts == [K] * 2 and "allclose" in fn:
            return steps, f"(allclose {codes[0]} {codes[1]})", "Bool"
        return None
    # (V5) -x on a float / a 1-d float array
    if isinstance(e, ast.UnaryOp) and isinstance(e.op, ast.USub) and _vc_lit(e.operand) is None:
        s0, c, t = tr.tr(e.operand)
        if t == K:
            return s0, f"(Py.VC.negK {c})", K
        if t == ("List", K):
            return s0, f"(Py.VC.negArr {c})", t
        return None
    # (V9) k + x, x + k, k - x, x - k for an int literal k and a float x: the literal as a float
    if isinstance(e, ast.BinOp) and isinstance(e.op, (ast.Add, ast.Sub)) and ((_vc_lit(e.left) is None) != (_vc_lit(e.right) is None)):
        lit = lambda k: f"({k} : {K})" if k in (0, 1) else f"(Py.Fld.ofInt ({k} : Int) : {K})"
        la, lb = _vc_lit(e.left), _vc_lit(e.right)
        s0, c, t = tr.tr(e.right if la is not None else e.left)
        if t != K:
            return None
        op = "+" if isinstance(e.op, ast.Add) else "-"
        return s0, (f"({lit(la)} {op} {c})" if la is not None else f"({c} {op} {lit(lb)})"), K
    # (V6) array + array, scalar * array, array / scalar
    if isinstance(e, ast.BinOp) and isinstance(e.op, (ast.Add, ast.Mult, ast.Div)):
        s1, a, ta = tr.tr(e.left); s2, b, tb = tr.tr(e.right)
        A = ("List", K)
        if isinstance(e.op, ast.Add) and ta == A and tb == A:
            n = tr.bindname()
            return s1 + s2 + [f"Py.bind (Py.VC.addArr {a} {b}) fun {n} =>"], n, A
        if isinstance(e.op, ast.Mult) and ta == K and tb == A:
            return s1 + s2, f"(Py.VC.scale {a} {b})", A
        if isinstance(e.op, ast.Div) and ta == A and tb == K:
            n = tr.bindname()
            return s1 + s2 + [f"Py.bind (Py.VC.divScalar {a} {b}) fun {n} =>"], n, A
        return None
    # (V7) x == y on floats; x < / <= / > / >= y where one side is an int literal (that float)
    if isinstance(e, ast.Compare) and len(e.ops) == 1 and isinstance(e.ops[0], (ast.Eq, ast.Lt, ast.LtE, ast.Gt, ast.GtE)):
        l, r = e.left, e.comparators[0]
        ll, lr = _vc_lit(l), _vc_lit(r)
        if (ll is not None and lr is not None) or (not isinstance(e.ops[0], ast.Eq) and ll is None and lr is None):
            return None
        lit = lambda k: f"({k} : {K})" if k in (0, 1) else f"(Py.Fld.ofInt ({k} : Int) : {K})"
        s1, a, ta = ([], lit(ll), K) if ll is not None else tr.tr(l)
        s2, b, tb = ([], lit(lr), K) if lr is not None else tr.tr(r)
        if ta == K and tb == K:
            if isinstance(e.ops[0], ast.Eq):
                return s1 + s2, f"(Py.VC.eqK {a} {b})", "Bool"
            op = {ast.Lt: "<", ast.LtE: "≤", ast.Gt: ">", ast.GtE: "≥"}[type(e.ops[0])]
            return s1 + s2, f"(decide ({a} {op} {b}))", "Bool"
        return None
    # (V8) max(xs, key=lambda x: x[0]) on a list of pairs with a float first component: the FIRST pair with the largest first component (empty raises)
    if (isinstance(e, ast.Call) and isinstance(e.func, ast.Name) and e.func.id == "max" and len(e.args) == 1 and len(e.keywords) == 1
            and e.keywords[0].arg == "key" and ast.unparse(e.keywords[0].value) == "lambda x: x[0]"):
        s0, c, t = tr.tr(e.args[0])
        if isinstance(t, tuple) and t[0] == "List" and isinstance(t[1], tuple) and t[1][0] == "Prod" and t[1][1] == K:
            n = tr.bindname()
            return s0 + [f"Py.bind (Py.VC.maxByFst {c}) fun {n} =>"], n, t[1]
        return None
    return None


EXPR_HOOKS.append(_vc_expr)

spec(lean="vc_sphere_volume", module="AlgoVolCtl", file=_VO, cls="VolSphere", func="calc_volume", params=["pi", "radius"], num_tparams=["K"],
     fparams=[_VC_F], vars={"pi": "K", "radius": "K"}, ret="K", subst=dict(_VC_PI))
spec(lean="vc_cap_volume", module="AlgoVolCtl", file=_VO, cls="VolSphere", func="calc_volume_spherical_cap", params=["pi", "r", "h"], num_tparams=["K"],
     fparams=[_VC_F], vars={"pi": "K", "r": "K", "h": "K"}, ret="K", subst=dict(_VC_PI))
spec(lean="vc_frustum_volume", module="AlgoVolCtl", file=_VO, cls="VolFrustumCone", func="calc_volume", params=["pi", "r1", "r2", "height"], num_tparams=["K"],
     fparams=[_VC_F], vars={"pi": "K", "r1": "K", "r2": "K", "height": "K"}, ret="K", subst=dict(_VC_PI))

# A `VolSphere` is its fields (`center : List K`, `radius : K`): TRUSTED GLUE `obj.center` / `obj.radius` are the parameters below.
_VC_NORM = "(norm : List K → K)"
LG_FUNCS["VolSphere.calc_volume"] = ("vc_sphere_volume", ["pi"])
LG_FUNCS["VolSphere.calc_volume_spherical_cap"] = ("vc_cap_volume", ["pi"])
LG_FUNCS["VolFrustumCone.calc_volume"] = ("vc_frustum_volume", ["pi"])
spec(lean="vc_sphere2", module="AlgoVolCtl", file=_VO, cls="VolSphere2Intersection", func="calc_intersect_volume",
     params=["pi", "ca", "ra", "cb", "rb"], num_tparams=["K"], fparams=[_VC_F, _VC_NORM],
     vars={"pi": "K", "ca": "List K", "ra": "K", "cb": "List K", "rb": "K", "r1": "K", "r2": "K", "d": "K", "part1": "K", "part2": "K"}, ret="K",
     subst=dict(_VC_PI, **{"obj1.radius": ("v.ra", "K"), "obj2.radius": ("v.rb", "K"), "obj1.center": ("v.ca", "List K"), "obj2.center": ("v.cb", "List K")}))


# --- swcgeom/utils/solid_geometry.py.  `np.sqrt` is the pure parameter `sqrt`.
_SG = "swcgeom/utils/solid_geometry.py"
_VC_SQRT = "(sqrt : K → K)"
spec(lean="vc_line_sphere", module="AlgoVolCtl", file=_SG, func="find_sphere_line_intersection",
     params=["sphere_center", "sphere_radius", "line_point_a", "line_point_b"], num_tparams=["K"], fparams=[_VC_F, _VC_SQRT],
     vars={"sphere_center": "List K", "sphere_radius": "K", "line_point_a": "List K", "line_point_b": "List K", "A": "List K", "B": "List K", "C": "List K",
           "D": "List K", "f": "List K", "a": "K", "b": "K", "c": "K", "discriminant": "K", "t": "K", "p": "List K", "t1": "K", "t2": "K",
           "p1": "List K", "p2": "List K"}, ret="List (K × List K)")
spec(lean="vc_project", module="AlgoVolCtl", file=_SG, func="project_point_on_line",
     params=["point_a", "direction_vector", "point_p"], num_tparams=["K"], fparams=[_VC_F],
     vars={"point_a": "List K", "direction_vector": "List K", "point_p": "List K", "A": "List K", "n": "List K", "P": "List K", "AP": "List K",
           "projection": "List K"}, ret="List K")

# --- the sphere / frustum overlap.  A `VolFrustumCone` is its fields (`c1`, `r1`, `c2`, `r2`) = the parameters `fc1`, `fr1`, `fc2`, `fr2`; the sphere is `sc`, `sr`.
# TRUSTED GLUE: `np.allclose` on arrays / scalars are the pure parameters `allcloseV` / `allclose`; the module constant `eps` is the parameter `eps`;
# `find_unit_vector_on_plane(up)` (a random draw) is the pure parameter `unitperp`; `frustum_cone.get_volume()` is `VolFrustumCone.calc_volume(r1, r2, height())`
# (what `_get_volume` returns; the dispatch `get_volume -> _get_volume` is proved in Refine/VolFront).
spec(lean="vc_height", module="AlgoVolCtl", file=_VO, cls="VolFrustumCone", func="height", params=["fc1", "fc2"], num_tparams=["K"], fparams=[_VC_NORM],
     vars={"fc1": "List K", "fc2": "List K"}, ret="K", subst={"self.c1": ("v.fc1", "List K"), "self.c2": ("v.fc2", "List K")})
LG_FUNCS["find_sphere_line_intersection"] = ("vc_line_sphere", [])
LG_FUNCS["project_point_on_line"] = ("vc_project", [])
_VC_FR = {"frustum_cone.c1": ("v.fc1", "List K"), "frustum_cone.c2": ("v.fc2", "List K"), "frustum_cone.r1": ("v.fr1", "K"), "frustum_cone.r2": ("v.fr2", "K"),
          "sphere.center": ("v.sc", "List K"), "sphere.radius": ("v.sr", "K"), "eps": ("v.eps", "K"),
          "frustum_cone.height()": ("fh_", "K", ["Py.bind (vc_height norm v.fc1 v.fc2) fun fh_ =>"]),
          "frustum_cone.get_volume()": ("fv_", "K", ["Py.bind (vc_height norm v.fc1 v.fc2) fun fh_ =>", "Py.bind (vc_frustum_volume F v.pi v.fr1 v.fr2 fh_) fun fv_ =>"]),
          "find_unit_vector_on_plane(up)": ("(unitperp v.up)", "List K")}
spec(lean="vc_concentric", module="AlgoVolCtl", file=_VO, cls="VolSphereFrustumConeIntersection", func="calc_concentric_intersect_volume",
     params=["pi", "eps", "sc", "sr", "fc1", "fr1", "fc2", "fr2"], num_tparams=["K"],
     fparams=[_VC_F, _VC_NORM, _VC_SQRT, "(allcloseV : List K → List K → Bool)", "(allclose : K → K → Bool)", "(unitperp : List K → List K)"],
     vars={"pi": "K", "eps": "K", "sc": "List K", "sr": "K", "fc1": "List K", "fr1": "K", "fc2": "List K", "fr2": "K",
           "h": "K", "c1": "List K", "r1": "K", "c2": "List K", "r2": "K", "v_himisphere": "K", "v_cap": "K", "up": "List K", "v": "List K",
           "intersections": "List (K × List K)", "t": "K", "p": "List K", "M": "List K", "h1": "K", "r3": "K", "v_cap1": "K", "v_frustum": "K", "v_cap2": "K"},
     ret="K", subst=dict(_VC_PI, **_VC_FR))
