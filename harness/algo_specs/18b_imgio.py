# C20 (T25 `imgio`): swcgeom/images/io.py  ->  Gen/AlgoImgIo.lean, arrays over a numeric type parameter `K` (run at Rat by the driver)
#   NDArrayImageStack.__init__      (3-d -> 4-d promotion, the rank assertion, the dtype conversion rule: which factor, scale-then-cast or cast-then-scale)
#   NDArrayImageStack.__getitem__   (a 4-tuple of ints: the element, IndexError out of range)
#   NDArrayImageStack.get_full
#   TiffImageStack.__init__         (axes string check / reset, `AXES_ORDER` lookup, `imgs.transpose(np.argsort(orders))`, then NDArrayImageStack.__init__)
#   save_tiff                       (instantiation: `data` an ndarray; promotion, assertions, the scale factor, `np.moveaxis(data, 2, 0)`, the axes string
#                                    and the photometric rule handed to the codec)
#
# New constructs (GENERAL: a Python construct / numpy idiom and its meaning; semantics in lean/SwcVerif/Model/PyImgIo.lean):
#   (I1) n-d arrays `NdArr K`: `a.ndim`, `a.shape`, `a.dtype`
#   (I2) `np.expand_dims(a, -1)`                                   Py.expandLast a
#   (I3) `np.moveaxis(a, i, j)` (int literals)                     Py.moveaxis a i j      (fallible)
#   (I4) `a.transpose(p)` (p a list of ints)                       Py.transpose a p       (fallible: p must be a permutation of the axes)
#   (I5) `np.argsort(l)` on a list of ints                         Py.argsort l           (stable)
#   (I6) `np.issubdtype(d, np.floating | np.unsignedinteger)`      Py.DType.isFloating d / Py.DType.isUnsigned d
#   (I7) `np.dtype(d)` -> d ; `np.uint8` … -> Py.DType.u8 …
#   (I8) a module-level constant dict literal (keys: 1-character strings or `np.dtype(np.T)`, values: constant int expressions) read from the module AST
#   (I9) `a.astype(d)`                                             Py.astype cast a d     (`cast` is a pure function parameter of the spec)
#   (I10) `a * s` / `s * a` for an n-d array and a float scalar    Py.mulScalarR a s / Py.mulScalarL s a
#   (I11) an int-valued expression / literal where a float is expected: `float(int)` (Py.Fld.ofInt); `1 / n`, `1.0 / n` for an int n: Py.Fld.div 1 (ofInt n)
#   (I12) a string literal where a `List Char` (a str as the list of its characters: iteration, `len`, `in`) is expected: its characters
#   (I13) `a.__getitem__(key)` for a tuple key of ints                Py.ndGet a [k0, …]     (fallible = IndexError)
#   (I14) `any(p(x) for x in l)` / `all(p(x) for x in l)` with a pure test `p`   l.any / l.all
#   (I16) `os.path.splitext(p)[-1]` on a str                        Py.splitExt p          (the extension, `""` if none)
#   (I17) `C(args…, **kwargs)` for a class `C` of the same module (a codec-backed reader, not called as a translated function): the record
#         (class name, kwargs) — which class is constructed with which keyword arguments; the positional arguments are the codec's business
# TRUSTED GLUE (every key is the exact source text; if it changes the translator fails), listed in design_notes/session4/imgio.md.
MODULE_MODEL_IMPORTS["AlgoImgIo"] = ["PyResample", "PyImgIo"]
TYPE_HEADS["NdArr"] = 1

_IO_DTYPES = {"np.uint8": "u8", "np.uint16": "u16", "np.uint32": "u32", "np.uint64": "u64", "np.int8": "i8", "np.int16": "i16", "np.int32": "i32",
              "np.int64": "i64", "np.float16": "f16", "np.float32": "f32", "np.float64": "f64"}


def _io_show(t):
    if isinstance(t, tuple) and t[0] == "NdArr" and len(t) == 2:
        return f"(Py.NdArr {show_type(t[1])})"
    if t == "DType":
        return "Py.DType"
    return None


SHOW_TYPE_HOOKS.append(_io_show)


def _io_is_arr(t):
    return isinstance(t, tuple) and t[0] == "NdArr"


def _io_const_int(nd):
    """value of a constant int expression (`(2**8) - 1`), else None"""
    if isinstance(nd, ast.Constant) and isinstance(nd.value, int) and not isinstance(nd.value, bool):
        return nd.value
    if isinstance(nd, ast.BinOp) and isinstance(nd.op, (ast.Add, ast.Sub, ast.Mult, ast.Pow)):
        a, b = _io_const_int(nd.left), _io_const_int(nd.right)
        if a is None or b is None or (isinstance(nd.op, ast.Pow) and not 0 <= b <= 128):
            return None
        return {ast.Add: a + b, ast.Sub: a - b, ast.Mult: a * b, ast.Pow: a ** b if isinstance(nd.op, ast.Pow) else 0}[type(nd.op)]
    return None


def _io_module_dict(tr, name):
    """(I8) the module-level assignment `name = {…}` of the spec's source file as a `Py.Dict`, else None"""
    p = REPO / tr.spec.file
    if p not in _AST_CACHE:
        _AST_CACHE[p] = ast.parse(p.read_text())
    hits = [s for s in _AST_CACHE[p].body if isinstance(s, ast.Assign) and len(s.targets) == 1 and isinstance(s.targets[0], ast.Name)
            and s.targets[0].id == name]
    if len(hits) != 1 or not isinstance(hits[0].value, ast.Dict) or not hits[0].value.keys:
        return None
    keys, vals, kt = [], [], None
    for k, v in zip(hits[0].value.keys, hits[0].value.values):
        n = _io_const_int(v)
        if n is None or k is None:
            return None
        if isinstance(k, ast.Constant) and isinstance(k.value, str) and len(k.value) == 1:
            kc, t = f"'{k.value}'", "Char"
        elif (isinstance(k, ast.Call) and ast.unparse(k.func) == "np.dtype" and len(k.args) == 1 and not k.keywords
              and ast.unparse(k.args[0]) in _IO_DTYPES):
            kc, t = f"Py.DType.{_IO_DTYPES[ast.unparse(k.args[0])]}", "DType"
        else:
            return None
        if kt not in (None, t):
            return None
        kt = t
        keys.append(kc); vals.append(n)
    body = ", ".join(f"({k}, ({v} : Int))" for k, v in zip(keys, vals))
    return [], f"([{body}] : Py.Dict {show_type(kt)} Int)", ("Dict", kt, "Int")


def _io_dtype(tr, e):
    """an expression of type DType (an `Optional` one that the source has tested: fallible unwrap), else None"""
    s0, c, t = tr.tr(e)
    if t == ("Option", "DType"):
        s0, c = tr.coerce2(s0, c, t, "DType")
        t = "DType"
    return (s0, c) if t == "DType" else None


def _io_expr(tr, e, want):
    if tr.spec.module not in ("AlgoImgIo", "AlgoImgIo2"):
        return None
    K0 = sorted(tr.num)[0] if len(tr.num) == 1 else None
    # (I11) ints where a float is expected
    if want in tr.num:
        if isinstance(e, ast.Constant) and not isinstance(e.value, bool) and isinstance(e.value, (int, float)) and e.value in (0, 1):
            return [], f"({int(e.value)} : {want})", want
        if (isinstance(e, ast.BinOp) and isinstance(e.op, ast.Div) and isinstance(e.left, ast.Constant) and not isinstance(e.left.value, bool)
                and e.left.value in (1, 1.0)):
            s0, c, t = tr.tr(e.right)
            if t == "Int":
                return s0, f"(Py.Fld.div (1 : {want}) (Py.Fld.ofInt {c}) : {want})", want
            return None
        s0, c, t = tr.tr(e, None)
        if t == "Int":
            return s0, f"(Py.Fld.ofInt {c} : {want})", want
        return (s0, c, t) if t == want else None
    # (I12) a str literal as the list of its characters
    if want == ("List", "Char") and isinstance(e, ast.Constant) and isinstance(e.value, str):
        return [], f"({json.dumps(e.value)}).toList", want
    # (I8) module-level constant dicts
    if isinstance(e, ast.Name) and isinstance(e.ctx, ast.Load) and e.id not in tr.vars and e.id not in tr.extra_vars and e.id.isupper():
        return _io_module_dict(tr, e.id)
    if isinstance(e, ast.Attribute):
        # (I7) numpy scalar types
        if ast.unparse(e) in _IO_DTYPES:
            return [], f"Py.DType.{_IO_DTYPES[ast.unparse(e)]}", "DType"
        # (I1)
        if e.attr in ("ndim", "shape", "dtype"):
            s0, c, t = tr.tr(e.value)
            if _io_is_arr(t):
                return {"ndim": (s0, f"(Py.NdArr.ndim {c})", "Int"), "shape": (s0, f"(Py.NdArr.shapeI {c})", ("List", "Int")),
                        "dtype": (s0, f"({c}).dtype", "DType")}[e.attr]
        return None
    # (I10)
    if isinstance(e, ast.BinOp) and isinstance(e.op, ast.Mult) and K0 is not None:
        s1, a, ta = tr.tr(e.left); s2, b, tb = tr.tr(e.right)
        if _io_is_arr(ta) and tb == ta[1]:
            return s1 + s2, f"(Py.mulScalarR {a} {b})", ta
        if _io_is_arr(tb) and ta == tb[1]:
            return s1 + s2, f"(Py.mulScalarL {a} {b})", tb
        return None
    # (I16)
    if (isinstance(e, ast.Subscript) and ast.unparse(e.slice) == "-1" and isinstance(e.value, ast.Call)
            and ast.unparse(e.value.func) == "os.path.splitext" and len(e.value.args) == 1 and not e.value.keywords):
        s0, c, t = tr.tr(e.value.args[0])
        return (s0, f"(Py.splitExt {c})", "String") if t == "String" else None
    if not isinstance(e, ast.Call):
        return None
    f = ast.unparse(e.func)
    args = e.args
    # (I17)
    if (isinstance(e.func, ast.Name) and len(e.keywords) == 1 and e.keywords[0].arg is None and isinstance(e.keywords[0].value, ast.Name)
            and f not in tr.table):
        p = REPO / tr.spec.file
        if p not in _AST_CACHE:
            _AST_CACHE[p] = ast.parse(p.read_text())
        if any(isinstance(nd, ast.ClassDef) and nd.name == f for nd in _AST_CACHE[p].body):
            s0, c, t = tr.tr(e.keywords[0].value)
            if isinstance(t, tuple) and t[0] == "Dict" and t[1] == "String":
                return s0, f"({json.dumps(f)}, {c})", ("Prod", "String", t)
        return None
    if e.keywords:
        return None
    # (I14) `any(p(x) for x in l)` / `all(…)` with a pure test: List.any / List.all (the comprehension variable is local to the test)
    if f in ("any", "all") and len(args) == 1 and isinstance(args[0], ast.GeneratorExp) and len(args[0].generators) == 1:
        g = args[0].generators[0]
        if g.ifs or g.is_async or not isinstance(g.target, ast.Name):
            return None
        s0, it, tit = tr.tr(g.iter)
        et = tr.elem_type(tit)
        tr.bind_target_types(g.target, et)
        if tr.var_type(g.target.id) != et:
            return None
        s1, c, t = tr.tr(args[0].elt)
        if s1 or t != "Bool":
            return None
        return s0, f"(({it}).{f} fun x_ => let v := {{ v with {lname(g.target.id)} := x_ }}; {c})", "Bool"
    # (I15) a translated constructor called by its alias name (`stmt_subst`): its pure function parameters are the caller's of the same name
    if isinstance(e.func, ast.Name) and f in tr.table and tr.table[f].cls is not None and "self" not in tr.table[f].params:
        callee = tr.table[f]
        if callee.callbacks or callee.out or callee.fuel or len(args) != len(callee.params) or any(b not in tr.spec.fparams for b in callee.fparams):
            return None
        steps, codes = [], []
        for x, pn in zip(args, callee.params):
            pt = parse_type(callee.vars[pn])
            s0, c, t = tr.tr(x, pt)
            if t != pt:
                return None
            steps += s0; codes.append(c)
        n = tr.bindname()
        fargs = [b.split()[0].strip("(") for b in callee.fparams]
        return steps + [f"Py.bind ({' '.join([callee.lean] + fargs + codes)}) fun {n} =>"], n, parse_type(callee.ret)
    # (I2)
    if f == "np.expand_dims" and len(args) == 2 and ast.unparse(args[1]) == "-1":
        s0, c, t = tr.tr(args[0])
        return (s0, f"(Py.expandLast {c})", t) if _io_is_arr(t) else None
    # (I3)
    if f == "np.moveaxis" and len(args) == 3 and all(isinstance(x, ast.Constant) and isinstance(x.value, int) for x in args[1:]):
        s0, c, t = tr.tr(args[0])
        if _io_is_arr(t):
            n = tr.bindname()
            return s0 + [f"Py.bind (Py.moveaxis {c} ({args[1].value} : Int) ({args[2].value} : Int)) fun {n} =>"], n, t
        return None
    # (I5)
    if f == "np.argsort" and len(args) == 1:
        s0, c, t = tr.tr(args[0])
        return (s0, f"(Py.argsort {c})", t) if t == ("List", "Int") else None
    # (I6)
    if f == "np.issubdtype" and len(args) == 2 and ast.unparse(args[1]) in ("np.floating", "np.unsignedinteger"):
        r = _io_dtype(tr, args[0])
        if r is None:
            return None
        return r[0], f"(Py.DType.{'isFloating' if ast.unparse(args[1]) == 'np.floating' else 'isUnsigned'} {r[1]})", "Bool"
    # (I7)
    if f == "np.dtype" and len(args) == 1:
        r = _io_dtype(tr, args[0])
        return None if r is None else (r[0], r[1], "DType")
    if isinstance(e.func, ast.Attribute):
        meth = e.func.attr
        # (I4)
        if meth == "transpose" and len(args) == 1:
            s0, c, t = tr.tr(e.func.value); s1, p, tp = tr.tr(args[0])
            if _io_is_arr(t) and tp == ("List", "Int"):
                n = tr.bindname()
                return s0 + s1 + [f"Py.bind (Py.transpose {c} {p}) fun {n} =>"], n, t
            return None
        # (I9)
        if meth == "astype" and len(args) == 1:
            s0, c, t = tr.tr(e.func.value)
            if _io_is_arr(t):
                r = _io_dtype(tr, args[0])
                if r is None or not any(b.startswith("(cast ") for b in tr.spec.fparams):
                    return None
                return s0 + r[0], f"(Py.astype cast {c} {r[1]})", t
            return None
        # (I13)
        if meth == "__getitem__" and len(args) == 1:
            s0, c, t = tr.tr(e.func.value)
            if _io_is_arr(t):
                s1, k, tk = tr.tr(args[0])
                parts, tt = [], tk
                while isinstance(tt, tuple) and tt[0] == "Prod":
                    parts.append(tt[1]); tt = tt[2]
                parts.append(tt)
                if len(parts) >= 2 and all(x == "Int" for x in parts) and not _io_is_arr(want):
                    n = tr.bindname()
                    ks = ", ".join(proj(k, i, len(parts)) for i in range(len(parts)))
                    return s0 + s1 + [f"Py.bind (Py.ndGet {c} [{ks}]) fun {n} =>"], n, t[1]
            return None
    return None


EXPR_HOOKS.append(_io_expr)

_IO_FILE = "swcgeom/images/io.py"
_IO_F = "(F : Py.Fld K)"
_IO_CAST = "(cast : Py.DType → K → K)"

# Trusted glue: the object IS its array `self.imgs` (`self.imgs = imgs` ends the constructor: `return imgs`); `super().__init__()` (ABC) has no effect.
spec(lean="ndarray_init", module="AlgoImgIo", file=_IO_FILE, cls="NDArrayImageStack", func="__init__", callee=["NDArrayImageStack_init"],
     params=["imgs", "dtype"], num_tparams=["K"], fparams=[_IO_F, _IO_CAST],
     vars={"imgs": "NdArr K", "dtype": "Option DType", "dtype_raw": "DType", "sclar_factor": "K"}, ret="NdArr K",
     skip_stmts=["super().__init__()"], stmt_subst={"self.imgs = imgs": "return imgs"},
     doc="`swcgeom/images/io.py::NDArrayImageStack.__init__` (the object is its array `self.imgs`, the value returned; `astype` converts every "
         "element by the function parameter `cast`)")

spec(lean="ndarray_getitem", module="AlgoImgIo", file=_IO_FILE, cls="NDArrayImageStack", func="__getitem__",
     params=["imgs", "key"], num_tparams=["K"], vars={"imgs": "NdArr K", "key": "Int × Int × Int × Int"}, ret="K",
     subst={"self.imgs": ("v.imgs", "NdArr K")},
     doc="`swcgeom/images/io.py::NDArrayImageStack.__getitem__`, the overload `key: tuple[int, int, int, int]` (`self.imgs` is the parameter `imgs`; "
         "no result = IndexError)")

spec(lean="ndarray_get_full", module="AlgoImgIo", file=_IO_FILE, cls="NDArrayImageStack", func="get_full",
     params=["imgs"], num_tparams=["K"], vars={"imgs": "NdArr K"}, ret="NdArr K", subst={"self.imgs": ("v.imgs", "NdArr K")},
     doc="`swcgeom/images/io.py::NDArrayImageStack.get_full` (`self.imgs` is the parameter `imgs`)")

# Trusted glue: the `with tifffile.TiffFile(...)` block is the codec: the array and the axes string it reads are the parameters `imgs`, `axes`;
# `super().__init__(imgs, dtype=dtype)` is NDArrayImageStack.__init__ and the object is its array.
spec(lean="tiff_init", module="AlgoImgIo", file=_IO_FILE, cls="TiffImageStack", func="__init__",
     params=["imgs", "axes", "dtype"], num_tparams=["K"], fparams=[_IO_F, _IO_CAST],
     vars={"imgs": "NdArr K", "axes": "List Char", "dtype": "Option DType", "axes_raw": "List Char", "orders": "List Int", "c": "Char",
           "warnings_": "List Int"}, ret="NdArr K", out=["warnings_"],
     skip_stmts=["with tifffile.TiffFile(fname, **kwargs) as f:\n    s = f.series[0]\n    imgs, axes = (s.asarray(), s.axes)"],
     stmt_subst={"super().__init__(imgs, dtype=dtype)": "return NDArrayImageStack_init(imgs, dtype)"},
     doc="`swcgeom/images/io.py::TiffImageStack.__init__` (the array and the axes string read from the file are the parameters `imgs`, `axes`; the "
         "object is its array, the value of the TRANSLATED `NDArrayImageStack.__init__`)")

# Trusted glue: instantiation `data` an ndarray (the `isinstance(data, ImageStack)` branch only replaces it by `get_full()`); the compression /
# metadata keyword bookkeeping is not translated; `kwargs.setdefault("photometric", …)` is the value handed to the codec when the caller passes no
# `photometric`; the codec call returns what it is handed: (data, axes, photometric).
spec(lean="save_tiff", module="AlgoImgIo", file=_IO_FILE, func="save_tiff", callee=["save_tiff"],
     params=["data", "dtype"], num_tparams=["K"], fparams=[_IO_F, _IO_CAST],
     vars={"data": "NdArr K", "dtype": "Option DType", "axes": "List Char", "scaler_factor": "K", "photometric": "String"},
     ret="NdArr K × List Char × String",
     skip_stmts=["if isinstance(data, ImageStack):\n    data = data.get_full()",
                 "if compression is not False:\n    kwargs.setdefault('compression', compression)\n    if compression == 'zlib':\n"
                 "        kwargs.setdefault('compressionargs', {'level': 6})",
                 "metadata = kwargs.get('metadata', {})", "metadata.setdefault('axes', axes)", "kwargs.update(metadata=metadata)"],
     stmt_subst={"kwargs.setdefault('photometric', 'rgb' if data.shape[-1] == 3 else 'minisblack')":
                 "photometric = 'rgb' if data.shape[-1] == 3 else 'minisblack'",
                 "tifffile.imwrite(fname, data, **kwargs)": "return (data, axes, photometric)"},
     doc="`swcgeom/images/io.py::save_tiff`, `data` an ndarray: what is handed to `tifffile.imwrite` (the array, the `axes` metadata, the photometric "
         "keyword); the compression / metadata keyword bookkeeping is not translated")

# Trusted glue: `os.path.exists(fname)` / `TeraflyImageStack.is_root(fname)` (the file system) are the parameters `found` / `is_root`;
# `kwargs` holds the `dtype` keyword only (the other keywords are forwarded untouched).
spec(lean="read_imgs", module="AlgoImgIo", file=_IO_FILE, func="read_imgs", callee=["read_imgs"],
     params=["fname", "found", "is_root", "kwargs"],
     vars={"fname": "String", "found": "Bool", "is_root": "Bool", "kwargs": "Dict String DType"}, ret="String × Dict String DType",
     subst={"os.path.exists(fname)": ("v.found", "Bool"), "TeraflyImageStack.is_root(fname)": ("v.is_root", "Bool")},
     doc="`swcgeom/images/io.py::read_imgs`: which reader class is constructed with which keyword arguments (`os.path.exists(fname)` and "
         "`TeraflyImageStack.is_root(fname)` are the parameters `found`, `is_root`; no result = ValueError)")
