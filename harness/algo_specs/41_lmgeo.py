# C10 (T21 `lmgeo`): the GEOMETRIC L-Measure functions of swcgeom/analysis/lmeasure.py and the Node / Path methods they call
#   ->  Gen/AlgoLmGeo.lean, over a numeric type parameter `K` (run at Rat by the driver).
# A tree is its columns (`ids`, `pids`, `types` : List Int; `xs`, `ys`, `zs`, `rs` : List K), a node handle is its row index, a `Tree.Branch` is the
# list of its node ids (as in 08_nodebranch.py / 40_lmtopo.py).  The Euclidean norm (a square root) is ONE pure function parameter
# `norm : List K → K`; `np.degrees` and the module-level `angle` of lmeasure.py are the pure parameters `degrees`, `angle`.
#
# GENERAL constructs added through the hooks (none keyed on a function name; semantics in lean/SwcVerif/Model/PyLmGeo.lean):
#   (G1) np.array([a, b, …], dtype=np.float32) of float scalars       the list [a, b, …]  (rounding between float widths is outside: DESIGN §3)
#   (G2) a - b on two 1-d float arrays                                 Py.LG.subArr a b   (unequal lengths raise)
#        a - b on two 2-d float arrays                                 Py.LG.subRows a b
#   (G3) np.linalg.norm(v) of a 1-d float array (no axis)              norm v             (the pure parameter `(norm : List K → K)` of the spec)
#        np.linalg.norm(m, axis=1) of a 2-d float array                m.map norm
#   (G4) x.item() on a float scalar                                    x
#   (G5) n.<col> on a node handle whose tree has <col> as a float column   Py.idx v.<col> n
#   (G6) recv.m(args) for a translated `Node` method m registered in LG_NODE_METHODS: the callee's column parameters are the caller's columns of the
#        receiver's tree, node arguments must be handles of the same tree, the callee's pure function parameters are the caller's of the same name
#   (G7) c * x / x * c for an int literal c and a float x             the literal as a float (`Py.Fld.ofInt c`), then `*`
#   (G8) f(args) where f is the python text of a pure function parameter declared in LG_FCALLS[spec]   application (`some`-wrapped result if declared fallible)
#   (G9) self.m(node) for a translated LMeasure method m taking the columns of a node's tree and that node
#   (G10) np.sum(a) of a 1-d float array                               Py.LG.sumK a
#   (G11) m[1:] / m[:-1] of a 2-d float array                          m.drop 1 / m.dropLast
#   (G13) n.branch()[k] for a node handle n and an int literal k      the tree node at entry k of the translated `node_branch` of n
#   (G14) f(args) for a translated module-level function of LG_FUNCS   its ambient parameters (`pi`) are the caller's variables of that name
#   (G12) x ** k for a float x and an int k                          Py.LG.powInt x k  (repeated `*`; k < 0 needs a division: raises here)
# TRUSTED GLUE is listed next to each spec and in design_notes/session4/lmgeo.md.
LEAN_KEYWORDS.add("bif")                      # `bif c then a else b` is a Lean token: the python name `bif` becomes `bif_`
share_hooks("AlgoResample", "AlgoLmGeo")        # int literal where a float is expected, `a / b` on float scalars (Py.fdiv: b = 0 raises)
MODULE_IMPORTS["AlgoLmGeo"] = ["Consts", "AlgoNode", "AlgoNodeBranch", "AlgoLMeasure"]
MODULE_MODEL_IMPORTS["AlgoLmGeo"] = ["PyMore", "PyResample", "PyLmGeo"]

LG_NODE_METHODS = {}     # method name of `Node` / `Tree.Node` -> lean name (methods taking arguments / float columns / pure function parameters)
LG_SELF_METHODS = {}     # python text `self.m` -> lean name of the translated LMeasure method
LG_FUNCS = {}            # python text of a module-level function -> (lean name, [its ambient parameters])
LG_FCALLS = {}           # lean name of the caller -> {python callee text: (name of the pure function parameter, result type, fallible?)}


def _lg_arr(t, tr, depth=1):
    for _ in range(depth):
        if not (isinstance(t, tuple) and t[0] == "List"):
            return False
        t = t[1]
    return t in tr.num


def _lg_fnames(sp):
    return [b.split()[0].strip("(") for b in sp.fparams]


def _lg_call(tr, callee, T, recv_code, args, what):
    """call of a translated function whose parameters are columns of the tree `T` of the caller, `self` (the receiver) and node / other arguments"""
    mine = tr.spec.tree_cols.get(T)
    if mine is None:
        raise Untranslatable(f"{tr.spec.lean}: `{what}`: the tree `{T}` is not column variables")
    inv = {}
    for d in callee.tree_cols.values():
        inv.update({var: key for key, var in d.items()})
    for nm in _lg_fnames(callee):
        if nm not in _lg_fnames(tr.spec) or [b for b in callee.fparams if b.split()[0].strip("(") == nm] != [b for b in tr.spec.fparams if b.split()[0].strip("(") == nm]:
            raise Untranslatable(f"{tr.spec.lean}: `{what}` needs the pure function parameter `{nm}`")
    if callee.num_tparams != tr.spec.num_tparams and callee.num_tparams:
        raise Untranslatable(f"{tr.spec.lean}: `{what}`: numeric type parameters differ")
    steps, codes, rest = [], [], list(args)
    for pn in callee.params:
        pt = parse_type(callee.vars[pn])
        if pn in inv:
            if inv[pn] not in mine:
                raise Untranslatable(f"{tr.spec.lean}: `{what}` needs column `{inv[pn]}` of `{T}`")
            codes.append(f"v.{lname(mine[inv[pn]])}")
        elif pn == "self" and recv_code is not None:
            codes.append(recv_code)
        elif rest:
            x = rest.pop(0)
            if is_node(pt):
                r = _lg_node(tr, x)          # an Optional node that is None: the callee's first use of it raises (AttributeError)
                if r is None or r[2] != T:
                    raise Untranslatable(f"{tr.spec.lean}: `{what}`: argument `{ast.unparse(x)}` is not a node of `{T}`")
                s0, c, t = r[0], r[1], pt
            else:
                s0, c, t = tr.tr(x, pt)
            if not is_node(pt) and t != pt:
                raise Untranslatable(f"{tr.spec.lean}: `{what}`: argument `{ast.unparse(x)}` is {t}, expected {pt}")
            steps += s0; codes.append(c)
        else:
            raise Untranslatable(f"{tr.spec.lean}: `{what}` gives no value for `{pn}`")
    if rest:
        raise Untranslatable(f"{tr.spec.lean}: too many arguments in `{what}`")
    if callee.fuel and not tr.spec.fuel:
        raise Untranslatable(f"{tr.spec.lean} calls {callee.lean} which needs fuel")
    fa = "".join(" " + nm for nm in _lg_fnames(callee))
    n = tr.bindname()
    rty = retarget_nodes(parse_type(callee.ret), T)
    return steps + [f"Py.bind ({callee.lean}{fa} {'fuel ' if callee.fuel else ''}{' '.join(codes)}) fun {n} =>"], n, rty


def _lg_node(tr, e):
    """(steps, code, tree text) when `e` translates to a node handle (an Optional node raises on None), else None"""
    try:
        s0, c, t = tr.tr(e)
    except Untranslatable:
        return None
    if isinstance(t, tuple) and t[0] == "Option" and is_node(t[1]):
        n0 = tr.bindname()
        s0, c, t = s0 + [f"Py.bind ({c}) fun {n0} =>"], n0, t[1]
    if not is_node(t):
        return None
    return s0, c, node_tree(t)


def _lg_lit(tr, e):
    """the int literal an expression is: a literal, or a local variable assigned exactly once in the function, to an int literal"""
    if isinstance(e, ast.Constant) and isinstance(e.value, int) and not isinstance(e.value, bool):
        return e.value
    return None


def _lg_expr(tr, e, want):
    if not tr.num:
        return None
    K = sorted(tr.num)[0] if len(tr.num) == 1 else None
    if K is None:
        return None
    # (G5) float column of a node handle
    if isinstance(e, ast.Attribute):
        r = _lg_node(tr, e.value)
        if r is None:
            return None
        s0, c, T = r
        cols = tr.spec.tree_cols.get(T, {})
        if e.attr in cols and _lg_arr(tr.vars.get(cols[e.attr]), tr):
            n = tr.bindname()
            return s0 + [f"Py.bind (Py.idx v.{lname(cols[e.attr])} {c}) fun {n} =>"], n, tr.vars[cols[e.attr]][1]
        return None
    if isinstance(e, ast.BinOp):
        # (G7) int literal times float
        if isinstance(e.op, ast.Mult):
            for lit, other, left in ((e.left, e.right, True), (e.right, e.left, False)):
                k = _lg_lit(tr, lit)
                if k is not None:
                    s0, c, t = tr.tr(other)
                    if t in tr.num:
                        kc = f"({k} : {t})" if k in (0, 1) else f"(Py.Fld.ofInt ({k} : Int) : {t})"
                        return s0, (f"({kc} * {c})" if left else f"({c} * {kc})"), t
                    return None
            return None
        # (G2) array - array
        if isinstance(e.op, ast.Sub):
            s1, a, ta = tr.tr(e.left)
            if _lg_arr(ta, tr) or _lg_arr(ta, tr, 2):
                s2, b, tb = tr.tr(e.right)
                if tb == ta:
                    n = tr.bindname()
                    fn = "subArr" if _lg_arr(ta, tr) else "subRows"
                    return s1 + s2 + [f"Py.bind (Py.LG.{fn} {a} {b}) fun {n} =>"], n, ta
            return None
        # (G12) float ** int
        if isinstance(e.op, ast.Pow):
            s0, c, t = tr.tr(e.left)
            if t in tr.num:
                s1, k, tk = tr.tr(e.right)
                if tk == "Int":
                    n = tr.bindname()
                    return s0 + s1 + [f"Py.bind (Py.LG.powInt {c} {k}) fun {n} =>"], n, t
            return None
        return None
    # (G13) `n.branch()[k]` for a node handle n and an int literal k: `Tree.Node.branch` is the TRANSLATED `node_branch` (the list of the branch's node
    #       ids = row indices); indexing the `Tree.Branch` (Path.__getitem__: range check, negative wrap, Path.Node reading the tree's column at
    #       `idx[k]`) gives the TREE node whose handle is that entry of the list
    if (isinstance(e, ast.Subscript) and not isinstance(e.slice, ast.Slice) and isinstance(e.value, ast.Call) and isinstance(e.value.func, ast.Attribute) and e.value.func.attr == "branch"
            and not e.value.args and not e.value.keywords and "node_branch" in by_lean_global):
        try:
            k = ast.literal_eval(e.slice)
        except (ValueError, SyntaxError):
            k = None
        if isinstance(k, int) and not isinstance(k, bool):
            r = _lg_node(tr, e.value.func.value)
            if r is not None:
                s0, c, T = r
                s1, br, tb = _lg_call(tr, by_lean_global["node_branch"], T, c, [], ast.unparse(e.value))
                if tb == ("List", "Int"):
                    n = tr.bindname()
                    return s0 + s1 + [f"Py.bind (Py.idx {br} ({k} : Int)) fun {n} =>"], n, f"Node@{T}"
        return None
    # (G11) m[1:], m[:-1]
    if isinstance(e, ast.Subscript) and isinstance(e.slice, ast.Slice) and e.slice.step is None:
        lo, hi = e.slice.lower, e.slice.upper
        lo_t, hi_t = (ast.unparse(lo) if lo is not None else None), (ast.unparse(hi) if hi is not None else None)
        if (lo_t, hi_t) in ((("1", None)), ((None, "-1"))):
            s0, c, t = tr.tr(e.value)
            if _lg_arr(t, tr, 2):
                return s0, (f"(({c}).drop 1)" if lo_t == "1" else f"(({c}).dropLast)"), t
        return None
    if not isinstance(e, ast.Call):
        return None
    f = ast.unparse(e.func)
    args = e.args
    kw = {k.arg: k.value for k in e.keywords}
    # (G8) a declared pure function parameter
    fc = LG_FCALLS.get(tr.spec.lean, {})
    if f in fc and not kw:
        nm, rty, fallible = fc[f]
        if nm not in _lg_fnames(tr.spec):
            raise Untranslatable(f"{tr.spec.lean}: `{f}` needs the pure function parameter `{nm}`")
        steps, codes = [], []
        for x in args:
            s0, c, t = tr.tr(x)
            steps += s0; codes.append(c)
        call = f"({nm} {' '.join(codes)})"
        if fallible:
            n = tr.bindname()
            return steps + [f"Py.bind {call} fun {n} =>"], n, parse_type(rty)
        return steps, call, parse_type(rty)
    # (G14) a translated module-level function of LG_FUNCS: its AMBIENT parameters (constants such as `pi` that stand for `math.pi` in the callee) are the
    #       caller's variables of the same name, the remaining parameters are the positional arguments
    if f in LG_FUNCS and not kw:
        lean, ambient = LG_FUNCS[f]
        callee = by_lean_global[lean]
        rest = [p_ for p_ in callee.params if p_ not in ambient]
        if len(rest) != len(args) or callee.fuel:
            return None
        if any(b not in tr.spec.fparams for b in callee.fparams):
            raise Untranslatable(f"{tr.spec.lean}: `{f}` needs the pure function parameters {callee.fparams}")
        steps, codes = [], {}
        for pn in ambient:
            if tr.vars.get(pn) != parse_type(callee.vars[pn]):
                raise Untranslatable(f"{tr.spec.lean}: `{f}` needs the ambient parameter `{pn}`")
            codes[pn] = f"v.{lname(pn)}"
        for pn, x in zip(rest, args):
            pt = parse_type(callee.vars[pn])
            s0, c, t = tr.tr(x, pt)
            if t != pt:
                raise Untranslatable(f"{tr.spec.lean}: `{ast.unparse(e)}`: argument `{ast.unparse(x)}` is {t}, expected {pt}")
            steps += s0; codes[pn] = c
        n = tr.bindname()
        fa = "".join(nm + " " for nm in _lg_fnames(callee))
        return steps + [f"Py.bind ({callee.lean} {fa}{' '.join(codes[p_] for p_ in callee.params)}) fun {n} =>"], n, parse_type(callee.ret)
    # (G1)
    if f == "np.array" and len(args) == 1 and isinstance(args[0], ast.List) and args[0].elts and \
            (not kw or (set(kw) == {"dtype"} and ast.unparse(kw["dtype"]) in ("np.float32", "np.float64"))):
        steps, codes = [], []
        for x in args[0].elts:
            s0, c, t = tr.tr(x, K)
            if t != K:
                return None
            steps += s0; codes.append(c)
        return steps, "[" + ", ".join(codes) + "]", ("List", K)
    # (G3)
    if f == "np.linalg.norm" and len(args) == 1 and "norm" in _lg_fnames(tr.spec):
        s0, c, t = tr.tr(args[0])
        if not kw and _lg_arr(t, tr):
            return s0, f"(norm {c})", t[1]
        if set(kw) == {"axis"} and ast.unparse(kw["axis"]) == "1" and _lg_arr(t, tr, 2):
            return s0, f"(({c}).map norm)", t[1]
        return None
    # (G10)
    if f == "np.sum" and len(args) == 1 and not kw:
        s0, c, t = tr.tr(args[0])
        if _lg_arr(t, tr):
            return s0, f"(Py.LG.sumK {c})", t[1]
        return None
    if isinstance(e.func, ast.Attribute):
        # (G4)
        if e.func.attr == "item" and not args and not kw:
            s0, c, t = tr.tr(e.func.value)
            if t in tr.num:
                return s0, c, t
            return None
        # (G9)
        if f in LG_SELF_METHODS and not kw and len(args) == 1:
            r = _lg_node(tr, args[0])
            if r is not None:
                s0, c, T = r
                callee = by_lean_global[LG_SELF_METHODS[f]]
                s1, c1, t1 = _lg_call(tr, callee, T, None, [args[0]], ast.unparse(e))
                return s1, c1, t1
            return None
        # (G6)
        if e.func.attr in LG_NODE_METHODS and not kw:
            r = _lg_node(tr, e.func.value)
            if r is not None:
                s0, c, T = r
                callee = by_lean_global[LG_NODE_METHODS[e.func.attr]]
                s1, c1, t1 = _lg_call(tr, callee, T, c, args, ast.unparse(e))
                return s0 + s1, c1, t1
            return None
    return None


EXPR_HOOKS.append(_lg_expr)

_LGN = "swcgeom/core/node.py"
_LGX = {"x": "xs", "y": "ys", "z": "zs"}
_LGXV = {"xs": "List K", "ys": "List K", "zs": "List K"}
_LG_NORM = "(norm : List K → K)"
_LG_F = "(F : Py.Fld K)"

# --- Node
spec(lean="node_xyz", module="AlgoLmGeo", file=_LGN, cls="Node", func="xyz", params=["xs", "ys", "zs", "self"], num_tparams=["K"],
     vars=dict(_LGXV, self="Node@self.attach"), ret="List K", tree_cols={"self.attach": dict(_LGX)},
     doc="`swcgeom/core/node.py::Node.xyz` (the node's tree is its coordinate columns `xs`, `ys`, `zs`; the node is its row index)")
LG_NODE_METHODS["xyz"] = "node_xyz"
spec(lean="node_distance", module="AlgoLmGeo", file=_LGN, cls="Node", func="distance", params=["xs", "ys", "zs", "self", "b"], num_tparams=["K"],
     fparams=[_LG_NORM], vars=dict(_LGXV, self="Node@self.attach", b="Node@self.attach"), ret="K", tree_cols={"self.attach": dict(_LGX)},
     doc="`swcgeom/core/node.py::Node.distance` (`np.linalg.norm` is the pure parameter `norm`; both nodes are handles of the same tree)")
LG_NODE_METHODS["distance"] = "node_distance"

# --- LMeasure, node level
_LM = "swcgeom/analysis/lmeasure.py"
spec(lean="lm_diameter", module="AlgoLmGeo", file=_LM, cls="LMeasure", func="diameter", params=["rs", "node"], num_tparams=["K"], fparams=[_LG_F],
     vars={"rs": "List K", "node": "Node@node.attach"}, ret="K", tree_cols={"node.attach": {"r": "rs"}})
spec(lean="lm_path_distance", module="AlgoLmGeo", file=_LM, cls="LMeasure", func="path_distance", params=["pids", "xs", "ys", "zs", "node"],
     num_tparams=["K"], fparams=[_LG_NORM], fuel=True,
     vars=dict(_LGXV, pids="List Int", node="Node@node.attach", n="Node@node.attach", parent="Option Node@node.attach", length="K"),
     ret="K", tree_cols={"node.attach": dict(_LGX, pid="pids")})
spec(lean="lm_euc_distance", module="AlgoLmGeo", file=_LM, cls="LMeasure", func="euc_distance", params=["ids", "pids", "types", "xs", "ys", "zs", "node"],
     num_tparams=["K"], fparams=[_LG_NORM],
     vars=dict(_LGXV, ids="List Int", pids="List Int", types="List Int", node="Node@node.attach", soma="Node@node.attach"),
     ret="K", tree_cols={"node.attach": dict(_LGX, id="ids", pid="pids", type="types")})

# --- LMeasure, bifurcation level
_LGB = {"bif.attach": {"id": "ids", "pid": "pids", "r": "rs"}}
spec(lean="lm_rall_power_d", module="AlgoLmGeo", file=_LM, cls="LMeasure", func="_rall_power_d", params=["ids", "pids", "rs", "bif"],
     num_tparams=["K"], fparams=[_LG_F],
     vars={"ids": "List Int", "pids": "List Int", "rs": "List K", "bif": "Node@bif.attach", "children": "List Node@bif.attach",
           "parent": "Option Node@bif.attach", "dp": "K", "da": "K", "db": "K"},
     ret="K × K × K", tree_cols=_LGB)
LG_SELF_METHODS["self._rall_power_d"] = "lm_rall_power_d"
spec(lean="lm_pk_2", module="AlgoLmGeo", file=_LM, cls="LMeasure", func="pk_2", params=["ids", "pids", "rs", "bif"],
     num_tparams=["K"], fparams=[_LG_F],
     vars={"ids": "List Int", "pids": "List Int", "rs": "List K", "bif": "Node@bif.attach", "dp": "K", "da": "K", "db": "K", "rall_power": "Int"},
     ret="K", tree_cols=_LGB)
_LGBX = {"bif.attach": dict(_LGX, id="ids", pid="pids")}
spec(lean="lm_bif_vector_local", module="AlgoLmGeo", file=_LM, cls="LMeasure", func="_bif_vector_local", params=["ids", "pids", "xs", "ys", "zs", "bif"],
     num_tparams=["K"],
     vars=dict(_LGXV, ids="List Int", pids="List Int", bif="Node@bif.attach", children="List Node@bif.attach", v1="List K", v2="List K"),
     ret="(List K) × (List K)", tree_cols=_LGBX)
LG_SELF_METHODS["self._bif_vector_local"] = "lm_bif_vector_local"
# trusted: `np.degrees` and the module-level `angle` (arccos of the clipped cosine; raises ValueError on a zero vector) are the pure parameters
# `degrees : K → K` and `angle : List K → List K → Option K` (`none` = it raised)
_LG_ANG = ["(angle : List K → List K → Option K)", "(degrees : K → K)"]
spec(lean="lm_bif_ampl_local", module="AlgoLmGeo", file=_LM, cls="LMeasure", func="bif_ampl_local", params=["ids", "pids", "xs", "ys", "zs", "bif"],
     num_tparams=["K"], fparams=_LG_ANG,
     vars=dict(_LGXV, ids="List Int", pids="List Int", bif="Node@bif.attach", v1="List K", v2="List K"),
     ret="K", tree_cols=_LGBX)
LG_FCALLS["lm_bif_ampl_local"] = {"angle": ("angle", "K", True), "np.degrees": ("degrees", "K", False)}

# --- Path / branch level.  A `Tree.Branch` is the list `branch` of its node ids = row indices of the tree (ids = positions), as `Node.branch` returns it.
# TRUSTED GLUE: `self.xyz()` of a Path (SWCLike.xyz = np.stack of `get_ndata(x|y|z)`, Path.get_ndata = the tree's column gathered at `self.idx`) is the
# list of the rows [xs[i], ys[i], zs[i]] for i in the path's index list, in order (Py.LG.gatherRows).
spec(lean="path_length", module="AlgoLmGeo", file="swcgeom/core/path.py", cls="Path", func="length", params=["xs", "ys", "zs", "idx"], num_tparams=["K"],
     fparams=[_LG_NORM], vars=dict(_LGXV, idx="List Int", xyz="List (List K)"), ret="K",
     subst={"self.xyz()": ("pxyz_", "List (List K)", ["Py.bind (Py.LG.gatherRows [v.xs, v.ys, v.zs] v.idx) fun pxyz_ =>"])},
     doc="`swcgeom/core/path.py::Path.length` (the path is the list `idx` of its row indices in the tree whose coordinate columns are `xs`, `ys`, `zs`)")
# TRUSTED GLUE: `branch[k]` (Path.__getitem__ with an int: range check, negative wrap, `Path.Node(self, k)` whose attributes read
# `tree.get_ndata(key)[self.idx][k]`) is the handle `branch[k]` of the TREE's node (Python indexing of the index list);
# `branch.length()` is the translated `Path.length` of that index list.
_LGBR = {"branch[0]": ("b0_", "Node@branch.attach", ["Py.bind (Py.idx v.branch (0 : Int)) fun b0_ =>"]),
         "branch[-1]": ("b1_", "Node@branch.attach", ["Py.bind (Py.idx v.branch (-1 : Int)) fun b1_ =>"]),
         "branch.length()": ("bl_", "K", ["Py.bind (path_length norm v.xs v.ys v.zs v.branch) fun bl_ =>"])}
_LGBT = {"branch.attach": dict(_LGX, r="rs")}
spec(lean="lm_branch_pathlength", module="AlgoLmGeo", file=_LM, cls="LMeasure", func="branch_pathlength", params=["xs", "ys", "zs", "branch"],
     num_tparams=["K"], fparams=[_LG_NORM], vars=dict(_LGXV, branch="List Int"), ret="K", subst={"branch.length()": _LGBR["branch.length()"]})
spec(lean="lm_contraction", module="AlgoLmGeo", file=_LM, cls="LMeasure", func="contraction", params=["xs", "ys", "zs", "branch"],
     num_tparams=["K"], fparams=[_LG_F, _LG_NORM], vars=dict(_LGXV, branch="List Int", euclidean="K"), ret="K", subst=dict(_LGBR),
     tree_cols={"branch.attach": dict(_LGX)})
spec(lean="lm_taper_1", module="AlgoLmGeo", file=_LM, cls="LMeasure", func="taper_1", params=["xs", "ys", "zs", "rs", "branch"],
     num_tparams=["K"], fparams=[_LG_F, _LG_NORM], vars=dict(_LGXV, rs="List K", branch="List Int", da="K", db="K"), ret="K", subst=dict(_LGBR),
     tree_cols=_LGBT)
spec(lean="lm_taper_2", module="AlgoLmGeo", file=_LM, cls="LMeasure", func="taper_2", params=["rs", "branch"],
     num_tparams=["K"], fparams=[_LG_F], vars={"rs": "List K", "branch": "List Int", "da": "K", "db": "K"}, ret="K",
     subst={k: _LGBR[k] for k in ("branch[0]", "branch[-1]")}, tree_cols={"branch.attach": {"r": "rs"}})

# --- remote bifurcation vectors: `children[k].branch()[-1]` = the last node of the branch through the child (the generated `Tree.Node.branch`)
spec(lean="lm_bif_vector_remote", module="AlgoLmGeo", file=_LM, cls="LMeasure", func="_bif_vector_remote", params=["ids", "pids", "xs", "ys", "zs", "bif"],
     num_tparams=["K"], fuel=True,
     vars=dict(_LGXV, ids="List Int", pids="List Int", bif="Node@bif.attach", children="List Node@bif.attach", v1="List K", v2="List K"),
     ret="(List K) × (List K)", tree_cols=_LGBX)
LG_SELF_METHODS["self._bif_vector_remote"] = "lm_bif_vector_remote"
spec(lean="lm_bif_ampl_remote", module="AlgoLmGeo", file=_LM, cls="LMeasure", func="bif_ampl_remote", params=["ids", "pids", "xs", "ys", "zs", "bif"],
     num_tparams=["K"], fparams=_LG_ANG, fuel=True,
     vars=dict(_LGXV, ids="List Int", pids="List Int", bif="Node@bif.attach", v1="List K", v2="List K"),
     ret="K", tree_cols=_LGBX)
LG_FCALLS["lm_bif_ampl_remote"] = {"angle": ("angle", "K", True), "np.degrees": ("degrees", "K", False)}

# --- compartment level.  A compartment is the list `[pid, idx]` of its two node indices (Compartment.__init__ stores `np.array([pid, idx])`, C09).
# TRUSTED GLUE: `math.pi` is the parameter `pi`; `self.compartment_point` is the parameter `compartment_point` (0 | -1);
# `compartment[self.compartment_point]` is the tree node at that entry of the index list and `compartment.length()` the translated Path.length
# (the same two rules as for `branch[k]` / `branch.length()` above).
_LG_PI = {"math.pi": ("v.pi", "K")}
spec(lean="circle_area", module="AlgoLmGeo", file=_LM, func="circle_area", params=["pi", "r"], num_tparams=["K"], vars={"pi": "K", "r": "K"}, ret="K",
     subst=dict(_LG_PI))
spec(lean="cylinder_volume", module="AlgoLmGeo", file=_LM, func="cylinder_volume", params=["pi", "r", "h"], num_tparams=["K"],
     vars={"pi": "K", "r": "K", "h": "K"}, ret="K", subst=dict(_LG_PI))
spec(lean="cylinder_side_surface_area", module="AlgoLmGeo", file=_LM, func="cylinder_side_surface_area", params=["pi", "r", "h"], num_tparams=["K"],
     fparams=[_LG_F], vars={"pi": "K", "r": "K", "h": "K"}, ret="K", subst=dict(_LG_PI))
LG_FUNCS["circle_area"] = ("circle_area", ["pi"])
LG_FUNCS["cylinder_volume"] = ("cylinder_volume", ["pi"])
LG_FUNCS["cylinder_side_surface_area"] = ("cylinder_side_surface_area", ["pi"])
_LGC = {"compartment[self.compartment_point]": ("cp_", "Node@compartment.attach", ["Py.bind (Py.idx v.compartment v.compartment_point) fun cp_ =>"]),
        "compartment.length()": ("cl_", "K", ["Py.bind (path_length norm v.xs v.ys v.zs v.compartment) fun cl_ =>"])}
spec(lean="lm_length", module="AlgoLmGeo", file=_LM, cls="LMeasure", func="length", params=["xs", "ys", "zs", "compartment"],
     num_tparams=["K"], fparams=[_LG_NORM], vars=dict(_LGXV, compartment="List Int"), ret="K", subst={"compartment.length()": _LGC["compartment.length()"]})
spec(lean="lm_section_area", module="AlgoLmGeo", file=_LM, cls="LMeasure", func="section_area", params=["pi", "rs", "node"], num_tparams=["K"],
     vars={"pi": "K", "rs": "List K", "node": "Node@node.attach"}, ret="K", tree_cols={"node.attach": {"r": "rs"}})
spec(lean="lm_volume", module="AlgoLmGeo", file=_LM, cls="LMeasure", func="volume", params=["pi", "compartment_point", "xs", "ys", "zs", "rs", "compartment"],
     num_tparams=["K"], fparams=[_LG_NORM],
     vars=dict(_LGXV, pi="K", compartment_point="Int", rs="List K", compartment="List Int", p="Node@compartment.attach"), ret="K",
     subst=dict(_LGC), tree_cols={"compartment.attach": {"r": "rs"}})
spec(lean="lm_surface", module="AlgoLmGeo", file=_LM, cls="LMeasure", func="surface", params=["pi", "compartment_point", "xs", "ys", "zs", "rs", "compartment"],
     num_tparams=["K"], fparams=[_LG_F, _LG_NORM],
     vars=dict(_LGXV, pi="K", compartment_point="Int", rs="List K", compartment="List Int", p="Node@compartment.attach"), ret="K",
     subst=dict(_LGC), tree_cols={"compartment.attach": {"r": "rs"}})
