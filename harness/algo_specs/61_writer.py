# C01 (T19 `writer`): the SWC WRITER  ->  Gen/AlgoWriter.lean
#   swcgeom/core/swc_utils/io.py::to_swc         (a GENERATOR, with its nested closure `get_v`)
#   swcgeom/core/swc.py::SWCLike.to_swc          (the overload that RETURNS the text: `fname` absent)
#
# New constructs (GENERAL Python / numpy idioms; their meaning is lean/SwcVerif/Model/PyWriter.lean), added through the extension hooks:
#
#   yield e                                       in a generator function the spec declares `yielded_ : List T` (and returns in `out`): the
#                                                 produced items in order, `yielded_.append(e)` (the consumer drains the generator completely:
#                                                 `"".join(it)`; an exception inside the generator makes the whole call raise)
#   f"…{e}…{e:spec}…"                             concatenation of the literal parts and the formatted values: a `str` is itself, an `int`
#                                                 `Py.strInt`, a `bool | str` `Py.BoolOrStr.format`; `{v:SPEC}` with a FLOAT format spec on a
#                                                 table cell is the pure parameter FLOAT_FORMATS[SPEC] (CPython's float formatting)
#   sep.join(xs) / s.isspace() / s.lstrip()       Py.strJoin / Py.strIsSpace / Py.strLstrip
#   str(v)                                        Py.strInt (int), Py.Cell.str (table cell)
#   a + b  (str)                                  a ++ b
#   a + b  (lists)                                a ++ b, the right operand typed like the left one (`xs + []`)
#   x if s else y  (s a str)                      truthiness of a str = non-empty
#   x if T else y / `if T:`  with T decided by an ABSENT parameter (`p is not None`)   only the live branch (expression level)
#   x is True / x is False / x is not …           on a `bool` and on a `bool | str` (`Py.BoolOrStr.isBool`); a str / bool literal or a str-valued
#                                                 conditional stored into a `bool | str` variable is its `.str` / `.bool` view
#   isinstance(x, str)                            on a `bool | str`
#   for x in xs  (xs : Optional list)             `None` is not iterable: raises, else the list
#   for x in col / col[i] / np.issubdtype(col.dtype, np.floating) / v != c / v + c     a table column whose dtype is known at run time
#                                                 (`PyCol F`, cells `PyCell F`: Model/PyWriter.lean)
#   f(a, …)  with f a PURE FUNCTION PARAMETER     registered in PURE_FNS (name -> argument types, result type)
#   g(k, idx) with g a nested closure that has type / pure-function parameters        the translated closure with the enclosing function's
#                                                 parameters handed through
#   F(fn, kw=…) with F a translated function that has pure-function parameters / absent parameters / is a generator
#
# TRUSTED GLUE (every entry replaces source text by its meaning on the modelled data; a change of the text makes the key miss = translator failure):
#   io.to_swc:        subst   names.cols()  -> the seven default column names (Gen/Consts.lean `name_*`, extracted from SWCNames on every run)
#                             names.id / names.pid -> Gen.Consts.name_id / name_pid
#                     skip    names = get_names(names)            (`names` is absent: the default names)
#                     absent  extra_cols, names
#                     pure parameters   get_ndata : str -> column (TOTAL: the seven standard columns exist), fmt4 : float -> str (= f"{v:.4f}")
#   SWCLike.to_swc:   subst   self.get_ndata -> the pure parameter `get_ndata`
#                     skip    the file branch `with open(fname, 'w', encoding='utf-8') as f: f.writelines(it)` and the `return None` after it
#                             (`fname` is absent: this is the overload that returns the text; the file receives the same lines)
#                     absent  fname, extra_cols
#                     `self` is the record SWCLike{source : str, comments : list[str]}
MODULE_MODEL_IMPORTS["AlgoWriter"] = ["PyWriter"]
MODULE_IMPORTS["AlgoWriter"] = ["Consts"]
STRUCTS["SWCLike"] = {"source": "String", "comments": "List String"}
MODULE_STRUCTS["AlgoWriter"] = ["SWCLike"]

TYPE_HEADS["PyCol"] = 1
TYPE_HEADS["PyCell"] = 1

# float format spec -> name of the pure parameter `F → String` that stands for CPython's formatting of a float with that spec
FLOAT_FORMATS = {".4f": "fmt4"}
# pure function parameters that the source CALLS: name -> (argument types, result type)
PURE_FNS = {"get_ndata": (["String"], "PyCol F")}
GEN_OUT = "yielded_"           # the variable of a generator function that collects what it yields


def _wr_show(t):
    if t == "PyBoolStr":
        return "Py.BoolOrStr"
    if t == "PyFn":
        return "Unit"
    if isinstance(t, tuple) and t[0] == "PyCol":
        return f"(Py.Col {show_type(t[1])})"
    if isinstance(t, tuple) and t[0] == "PyCell":
        return f"(Py.Cell {show_type(t[1])})"
    return None


SHOW_TYPE_HOOKS.append(_wr_show)


def _wr_is(t, head):
    return isinstance(t, tuple) and t[0] == head


def _wr_fparam_names(sp):
    return [b.split()[0].strip("(") for b in sp.fparams]


def _wr_fit(code, t, want):
    """a `str` where a `bool | str` is expected is its `.str` view"""
    if want == "PyBoolStr" and t == "String":
        return f"(Py.BoolOrStr.str {code})", "PyBoolStr"
    return code, t


def _wr_const_bool(e):
    return isinstance(e, ast.Constant) and isinstance(e.value, bool)


def _wr_format(tr, part):
    """one `{value[:spec]}` of an f-string -> (steps, code of type String)"""
    if part.conversion != -1:
        raise Untranslatable(f"{tr.spec.lean}: conversion in `{ast.unparse(part)}`")
    s0, c, t = tr.tr(part.value)
    if part.format_spec is not None:
        fs = part.format_spec
        if not (isinstance(fs, ast.JoinedStr) and len(fs.values) == 1 and isinstance(fs.values[0], ast.Constant)):
            raise Untranslatable(f"{tr.spec.lean}: computed format spec")
        spec_txt = fs.values[0].value
        fn = FLOAT_FORMATS.get(spec_txt)
        if fn is None or fn not in _wr_fparam_names(tr.spec) or not _wr_is(t, "PyCell"):
            raise Untranslatable(f"{tr.spec.lean}: format spec `{spec_txt}` on {t}")
        n = tr.bindname()
        return s0 + [f"Py.bind (Py.Cell.fmtFloat {fn} {c}) fun {n} =>"], n
    if t == "String":
        return s0, c
    if t == "Int":
        return s0, f"(Py.strInt {c})"
    if t == "PyBoolStr":
        return s0, f"(Py.BoolOrStr.format {c})"
    raise Untranslatable(f"{tr.spec.lean}: f-string value of type {t}")


def _wr_pyparams(callee):
    """(positional parameter names, all parameter names) of the callee's `def`, read from its current source"""
    p = REPO / callee.file
    if p not in _AST_CACHE:
        _AST_CACHE[p] = ast.parse(p.read_text())
    a = find_def(_AST_CACHE[p], callee.cls, callee.func).args
    pos = [x.arg for x in a.posonlyargs + a.args]
    return pos, pos + [x.arg for x in a.kwonlyargs]


def _wr_call_translated(tr, e, callee):
    """a call of a translated module-level function with pure-function parameters / absent parameters / a generator"""
    pos, allp = _wr_pyparams(callee)
    if any(isinstance(a, ast.Starred) for a in e.args) or any(k.arg is None for k in e.keywords) or len(e.args) > len(pos):
        raise Untranslatable(f"{tr.spec.lean}: call `{ast.unparse(e)}`")
    given = dict(zip(pos, e.args))
    for k in e.keywords:
        if k.arg not in allp or k.arg in given:
            raise Untranslatable(f"{tr.spec.lean}: keyword `{k.arg}` in `{ast.unparse(e)}`")
        given[k.arg] = k.value
    if callee.fuel or callee.callbacks or callee.raises or any(t not in tr.spec.tparams for t in callee.tparams):
        raise Untranslatable(f"{tr.spec.lean}: call of {callee.lean}")
    steps, fcodes, codes = [], [], []
    mine = _wr_fparam_names(tr.spec)
    for p in _wr_fparam_names(callee):
        if p in given:
            s0, c, t = tr.tr(given.pop(p))
            if t != "PyFn" or s0:
                raise Untranslatable(f"{tr.spec.lean}: argument `{p}` of {callee.lean} is not a function parameter")
            fcodes.append(c)
        elif p in allp or p not in mine:
            raise Untranslatable(f"{tr.spec.lean}: {callee.lean} needs the function `{p}`")
        else:
            fcodes.append(p)
    dflt = fn_defaults(callee)
    for p in callee.params:
        pt = parse_type(callee.vars[p])
        x = given.pop(p) if p in given else dflt.get(p)
        if x is None:
            raise Untranslatable(f"{tr.spec.lean}: `{ast.unparse(e)}` gives no value for `{p}`")
        s0, c, t = tr.tr(x, pt)
        if t != pt:
            s0, c = tr.coerce2(s0, c, t, pt)
        steps += s0; codes.append(c)
    for p, x in given.items():
        # a parameter the callee's instantiation leaves out: the caller must leave it out too
        if p not in callee.absent or not ((isinstance(x, ast.Name) and x.id in tr.spec.absent and x.id not in tr.vars)
                                          or (isinstance(x, ast.Constant) and x.value is None)):
            raise Untranslatable(f"{tr.spec.lean}: `{ast.unparse(e)}` passes `{p}`, which {callee.lean} takes as absent")
    n = tr.bindname()
    call = " ".join([callee.lean] + fcodes + codes)
    steps.append(f"Py.bind ({call}) fun {n} =>")
    if callee.out == [GEN_OUT]:
        return steps, f"{n}.1", parse_type(callee.vars[GEN_OUT])          # a generator: the items it yields
    if callee.out:
        raise Untranslatable(f"{tr.spec.lean}: out-parameters of {callee.lean}")
    return steps, n, parse_type(callee.ret)


def _wr_expr(tr, e, want):
    sp = tr.spec
    # ---- a `str` / `bool` literal stored where a `bool | str` is declared
    if want == "PyBoolStr" and isinstance(e, ast.Constant) and isinstance(e.value, (str, bool)):
        if isinstance(e.value, bool):
            return [], f"(Py.BoolOrStr.bool {'true' if e.value else 'false'})", "PyBoolStr"
        return [], f"(Py.BoolOrStr.str {lean_string(e.value)})", "PyBoolStr"
    # ---- f-strings
    if isinstance(e, ast.JoinedStr):
        steps, parts = [], []
        for p in e.values:
            if isinstance(p, ast.Constant) and isinstance(p.value, str):
                parts.append(lean_string(p.value))
            elif isinstance(p, ast.FormattedValue):
                s0, c = _wr_format(tr, p)
                steps += s0; parts.append(c)
            else:
                raise Untranslatable(f"{sp.lean}: f-string part")
        return steps, "(" + " ++ ".join(parts or ['""']) + ")", "String"
    # ---- conditional expressions
    if isinstance(e, ast.IfExp):
        known = tr.static_truth(e.test)
        if known is not None:
            s0, c, t = tr.tr(e.body if known else e.orelse, want)
            c, t = _wr_fit(c, t, want)
            return s0, c, t
        s0, c, tc = tr.tr(e.test)
        if tc == "String":
            w = None if want == "PyBoolStr" else want       # the branches are typed on their own; the result is fitted to the slot below
            s1, a, ta = tr.tr(e.body, w)
            s2, b, tb = tr.tr(e.orelse, w)
            if s1 or s2 or ta != tb:
                raise Untranslatable(f"{sp.lean}: `{ast.unparse(e)}`")
            code, t = _wr_fit(f"(if Py.strTruthy {c} then {a} else {b})", ta, want)
            return s0, code, t
        return None
    # ---- comparisons
    if isinstance(e, ast.Compare) and len(e.ops) == 1:
        op, r = e.ops[0], e.comparators[0]
        if isinstance(op, (ast.Is, ast.IsNot)) and _wr_const_bool(r):
            s0, c, t = tr.tr(e.left)
            if t == "Bool":
                code = c if r.value else f"(!{c})"
            elif t == "PyBoolStr":
                code = f"(Py.BoolOrStr.isBool {c} {'true' if r.value else 'false'})"
            else:
                return None
            return s0, code if isinstance(op, ast.Is) else f"(!{code})", "Bool"
        if isinstance(op, (ast.Eq, ast.NotEq)):
            s0, a, ta = tr.tr(e.left)
            if _wr_is(ta, "PyCell"):
                s1, b, tb = tr.tr(r)
                if tb != "Int":
                    raise Untranslatable(f"{sp.lean}: `{ast.unparse(e)}`")
                n = tr.bindname()
                ne = isinstance(op, ast.NotEq)
                return s0 + s1 + [f"Py.bind (Py.Cell.neInt {a} {b}) fun {n} =>"], n if ne else f"(!{n})", "Bool"
        return None
    # ---- `+`
    if isinstance(e, ast.BinOp) and isinstance(e.op, ast.Add):
        s0, a, ta = tr.tr(e.left)
        if ta == "String":
            s1, b, tb = tr.tr(e.right)
            if tb == "String":
                return s0 + s1, f"({a} ++ {b})", "String"
            return None
        if _wr_is(ta, "List"):
            s1, b, tb = tr.tr(e.right, ta)
            if tb == ta:
                return s0 + s1, f"({a} ++ {b})", ta
            return None
        if _wr_is(ta, "PyCell"):
            s1, b, tb = tr.tr(e.right)
            if tb == "Int":
                n = tr.bindname()
                return s0 + s1 + [f"Py.bind (Py.Cell.addInt {a} {b}) fun {n} =>"], n, ta
        return None
    # ---- `col[i]`
    if isinstance(e, ast.Subscript) and not isinstance(e.slice, (ast.Slice, ast.Tuple)):
        s0, a, ta = tr.tr(e.value)
        if _wr_is(ta, "PyCol"):
            s1, i, ti = tr.tr(e.slice)
            if ti == ("PyCell", ta[1]):
                n = tr.bindname()
                return s0 + s1 + [f"Py.bind (Py.Col.get {a} {i}) fun {n} =>"], n, ti
            raise Untranslatable(f"{sp.lean}: `{ast.unparse(e)}` with an index of type {ti}")
        return None
    if not isinstance(e, ast.Call):
        return None
    f = ast.unparse(e.func)
    args, kw = e.args, e.keywords
    # ---- markers introduced by the `for` hook below
    if f == "__cells__" and len(args) == 1:
        s0, c, t = tr.tr(args[0])
        return s0, f"(Py.Col.cells {c})", ("List", ("PyCell", t[1]))
    if f == "__unopt__" and len(args) == 1:
        s0, c, t = tr.tr(args[0])
        n = tr.bindname()
        return s0 + [f"Py.bind ({c}) fun {n} =>"], n, t[1]
    # ---- a pure function parameter called by the source
    if isinstance(e.func, ast.Name) and e.func.id in PURE_FNS and e.func.id in _wr_fparam_names(sp) and not kw:
        ats, rt = PURE_FNS[e.func.id]
        if len(args) != len(ats):
            raise Untranslatable(f"{sp.lean}: `{ast.unparse(e)}`")
        steps, codes = [], []
        for x, at in zip(args, ats):
            s0, c, t = tr.tr(x, parse_type(at))
            if t != parse_type(at):
                raise Untranslatable(f"{sp.lean}: argument `{ast.unparse(x)}` : {t} of `{e.func.id}`")
            steps += s0; codes.append(c)
        return steps, f"({e.func.id} {' '.join(codes)})", parse_type(rt)
    # ---- a nested closure with type / pure-function parameters, called directly
    if isinstance(e.func, ast.Name) and e.func.id in sp.closures and not kw:
        callee = by_lean_global[sp.closures[e.func.id]]
        if not (callee.tparams or callee.fparams):
            return None
        if callee.callbacks or callee.fuel or callee.tparams != sp.tparams or callee.num_tparams != sp.num_tparams or callee.fparams != sp.fparams \
                or len(args) != len(callee.params):
            raise Untranslatable(f"{sp.lean}: direct call of the closure {callee.lean}")
        steps, codes = [], []
        for x, pn in zip(args, callee.params):
            pt = parse_type(callee.vars[pn])
            s0, c, t = tr.tr(x, pt)
            s0, c = tr.coerce2(s0, c, t, pt)
            steps += s0; codes.append(c)
        caps = callee.captures
        st0 = "()" if not caps else "(" + ", ".join(f"v.{lname(c)}" for c in caps) + ")"
        n = tr.bindname()
        back = ""
        if caps:
            back = " let v := { v with " + ", ".join(f"{lname(c)} := {proj(n + '.1', k, len(caps))}" for k, c in enumerate(caps)) + " };"
        steps.append(f"Py.bind ({callee.lean} {tr.bargs_nofuel} {st0} {' '.join(codes)}) fun {n} =>{back}")
        return steps, f"{n}.2", parse_type(callee.ret)
    # ---- a translated function with pure-function parameters / absent parameters / a generator
    if f in tr.table and tr.table[f].cls is None and (tr.table[f].fparams or tr.table[f].absent or tr.table[f].out == [GEN_OUT]):
        return _wr_call_translated(tr, e, tr.table[f])
    # ---- builtins on str / cells
    if f == "str" and len(args) == 1 and not kw:
        s0, c, t = tr.tr(args[0])
        if t == "Int":
            return s0, f"(Py.strInt {c})", "String"
        if _wr_is(t, "PyCell"):
            n = tr.bindname()
            return s0 + [f"Py.bind (Py.Cell.str {c}) fun {n} =>"], n, "String"
        return None
    if f == "isinstance" and len(args) == 2 and ast.unparse(args[1]) == "str":
        s0, c, t = tr.tr(args[0])
        if t == "PyBoolStr":
            return s0, f"(Py.BoolOrStr.isStr {c})", "Bool"
        if t == "String":
            return s0, "true", "Bool"
        return None
    if f == "np.issubdtype" and len(args) == 2 and ast.unparse(args[1]) == "np.floating" and isinstance(args[0], ast.Attribute) \
            and args[0].attr == "dtype":
        s0, c, t = tr.tr(args[0].value)
        if _wr_is(t, "PyCol"):
            return s0, f"(Py.Col.isFloating {c})", "Bool"
        return None
    if isinstance(e.func, ast.Attribute) and not kw:
        meth = e.func.attr
        if meth in ("isspace", "lstrip") and not args:
            s0, c, t = tr.tr(e.func.value)
            if t == "String":
                return (s0, f"(Py.strIsSpace {c})", "Bool") if meth == "isspace" else (s0, f"(Py.strLstrip {c})", "String")
            return None
        if meth == "join" and len(args) == 1:
            s0, c, t = tr.tr(e.func.value)
            if t == "String":
                s1, x, tx = tr.tr(args[0], ("List", "String"))
                if tx != ("List", "String"):
                    raise Untranslatable(f"{sp.lean}: `{ast.unparse(e)}` joins {tx}")
                return s0 + s1, f"(Py.strJoin {c} {x})", "String"
            return None
    return None


def _wr_stmt(tr, s):
    # ---- `yield e` in a generator function
    if isinstance(s, ast.Expr) and isinstance(s.value, ast.Yield):
        if GEN_OUT not in tr.vars or tr.spec.nested or s.value.value is None:
            raise Untranslatable(f"{tr.spec.lean}: `yield` needs the variable `{GEN_OUT}`")
        new = ast.Expr(ast.Call(ast.Attribute(ast.Name(GEN_OUT, ast.Load()), "append", ast.Load()), [s.value.value], []))
        ast.copy_location(new, s); ast.fix_missing_locations(new)
        return tr.s_Expr(new)
    # ---- `for x in xs` over an Optional list / over a table column
    if isinstance(s, ast.For) and not (isinstance(s.iter, ast.Call) and ast.unparse(s.iter.func) in ("__cells__", "__unopt__")):
        _, _, t = tr.tr(s.iter)
        mark = "__cells__" if _wr_is(t, "PyCol") else "__unopt__" if (_wr_is(t, "Option") and _wr_is(t[1], "List")) else None
        if mark is None:
            return None
        new = ast.For(s.target, ast.Call(ast.Name(mark, ast.Load()), [s.iter], []), s.body, s.orelse, None)
        ast.copy_location(new, s); ast.fix_missing_locations(new)
        return tr.s_For(new)
    return None


EXPR_HOOKS.append(_wr_expr)
STMT_HOOKS.append(_wr_stmt)

_WR_IO = "swcgeom/core/swc_utils/io.py"
_WR_FP = ["(fmt4 : F → String)", "(get_ndata : String → (Py.Col F))"]
_WR_NAMES = {"names.id": ("Gen.Consts.name_id", "String"), "names.pid": ("Gen.Consts.name_pid", "String")}

spec(lean="to_swc_get_v", module="AlgoWriter", file=_WR_IO, func="to_swc", nested="get_v",
     params=["k", "idx"], tparams=["F"], fparams=_WR_FP, captures=["id_offset"],
     vars={"k": "String", "idx": "PyCell F", "id_offset": "Int", "vs": "PyCol F", "v": "PyCell F"}, ret="String", subst=_WR_NAMES,
     doc="`swcgeom/core/swc_utils/io.py::to_swc`, nested `get_v` (`get_ndata` returns a column whose dtype is known at run time; `fmt4` is "
         "`f\"{v:.4f}\"` of a float)")
spec(lean="to_swc", module="AlgoWriter", file=_WR_IO, func="to_swc", callee=["to_swc"],
     params=["comments", "id_offset"], tparams=["F"], fparams=_WR_FP, absent=["extra_cols", "names"], closures={"get_v": "to_swc_get_v"},
     vars={"comments": "Option (List String)", "id_offset": "Int", "c": "String", "cols": "List String", "idx": "PyCell F",
           "yielded_": "List String"},
     ret="Unit", out=["yielded_"],
     subst=dict(_WR_NAMES, **{"names.cols()": ("[Gen.Consts.name_id, Gen.Consts.name_type, Gen.Consts.name_x, Gen.Consts.name_y, "
                                               "Gen.Consts.name_z, Gen.Consts.name_r, Gen.Consts.name_pid]", "List String")}),
     skip_stmts=["names = get_names(names)"],
     doc="`swcgeom/core/swc_utils/io.py::to_swc`, a generator: `yielded_` is the list of the lines it produces (default column names, no extra columns)")
spec(lean="swclike_to_swc", module="AlgoWriter", file="swcgeom/core/swc.py", cls="SWCLike", func="to_swc",
     params=["self", "source", "comments", "id_offset"], tparams=["F"], fparams=_WR_FP, absent=["fname", "extra_cols"],
     vars={"self": "SWCLike", "source": "PyBoolStr", "comments": "Bool", "id_offset": "Int", "data": "List String", "it": "List String"},
     ret="String", subst={"self.get_ndata": ("get_ndata", "PyFn")},
     skip_stmts=["with open(fname, 'w', encoding='utf-8') as f:\n    f.writelines(it)", "return None"],
     doc="`swcgeom/core/swc.py::SWCLike.to_swc`, the overload that returns the text (`fname` absent; `self` is its `source` and `comments`, "
         "`self.get_ndata` the parameter `get_ndata`)")
