# C15: the token-level parser and the AST walk of swcgeom/transforms/neurolucida_asc.py  ->  Gen/AlgoAsc.lean
#
# Data model (the trusted reading of the classes, see design_notes/session4/ascparser.md):
#  * a `Token` is (type, value): `TokenType` members are the integers `auto()` gives them (read from the source), the value a scalar
#    (`Py.Atom`: a str, or a float kept as an opaque payload); `lineno` / `column` only occur in error messages;
#  * the lexer is OUTSIDE: `Parser.lexer` is the list of the tokens the lexer will still yield, `next(self.lexer, None)` takes its head;
#  * AST nodes are mutable shared objects: they live in a heap `Parser.nodes` (a list of `ASTNode` records), a node reference is its
#    index; `ASTNode.tokens` (bookkeeping that the conversion never reads) is dropped.
_ASC = "swcgeom/transforms/neurolucida_asc.py"
MODULE_STRUCTS["AlgoAsc"] = ["Token", "ASTNode", "Parser"]
MODULE_IMPORTS["AlgoAsc"] = ["Consts"]
MODULE_MODEL_IMPORTS["AlgoAsc"] = ["PyObjHeap"]      # Py.Atom / Py.Val / Py.strUpper / Py.alloc
STRUCTS["Token"] = {"type": "Int", "value": "PyAtom"}
STRUCTS["ASTNode"] = {"type": "Int", "value": "PyVal", "children": "List Ref@ASTNode", "parent": "Option Ref@ASTNode"}
STRUCTS["Parser"] = {"lexer": "List Token", "next_token": "Option Token", "nodes": "List ASTNode"}
# `ASTNode(type, value, tokens=…)` / `AST(source=…)`: a fresh record (children = [], parent = None); `tokens` and `source` are dropped
HEAP_CTORS["ASTNode"] = {"cls": "ASTNode", "fields": ["type", "value"], "ignore": ["tokens"]}
HEAP_CTORS["AST"] = {"cls": "ASTNode", "fields": [], "ignore": ["source"], "fixed": {"type": "ASTType.ROOT"}}

_PH = {"ASTNode": "self.nodes"}
_TOKENS_DROPPED = ["root.tokens.append(token)", "node.tokens.append(t2)", "node.tokens.append(t3)", "current.tokens.append(token)"]

spec(lean="ast_add_child", module="AlgoAsc", file=_ASC, cls="ASTNode", func="add_child", ref_method=("ASTNode", "add_child"),
     params=["nodes", "self", "child"], vars={"nodes": "List ASTNode", "self": "Ref@ASTNode", "child": "Ref@ASTNode"},
     ret="Unit", out=["nodes"], heap={"ASTNode": "nodes"},
     skip_stmts=["if child.tokens is not None:\n    self.tokens.extend(child.tokens)"],
     doc="`neurolucida_asc.py::ASTNode.add_child` on the heap of AST nodes (`tokens` dropped)")

spec(lean="parser_read_token", module="AlgoAsc", file=_ASC, cls="Parser", func="_read_token", callee=["self._read_token"],
     params=["self"], vars={"self": "Parser"}, ret="Unit", out=["self"],
     stmt_subst={"self.next_token = next(self.lexer, None)":
                 "self.next_token = self.lexer[0] if len(self.lexer) != 0 else None\nself.lexer = self.lexer[1:]"},
     doc="`neurolucida_asc.py::Parser._read_token` (`self.lexer` = the tokens the lexer will still yield)")
spec(lean="parser_consume", module="AlgoAsc", file=_ASC, cls="Parser", func="_consume", callee=["self._consume"],
     params=["self"], vars={"self": "Parser", "token": "Option Token"}, ret="Option Token", out=["self"])
spec(lean="parser_assert", module="AlgoAsc", file=_ASC, cls="Parser", func="_assert", callee=["self._assert"],
     params=["self", "token", "type"], vars={"self": "Parser", "token": "Option Token", "type": "Int"}, ret="Token")
spec(lean="parser_assert_and_cunsume", module="AlgoAsc", file=_ASC, cls="Parser", func="_assert_and_cunsume", callee=["self._assert_and_cunsume"],
     params=["self", "type"], vars={"self": "Parser", "type": "Int", "token": "Option Token"}, ret="Token", out=["self"])
spec(lean="parser_skip_comments", module="AlgoAsc", file=_ASC, cls="Parser", func="_skip_comments", callee=["self._skip_comments"],
     params=["self"], vars={"self": "Parser"}, ret="Unit", out=["self"], fuel=True)
spec(lean="parser_parse_comment", module="AlgoAsc", file=_ASC, cls="Parser", func="_parse_comment", callee=["self._parse_comment"],
     params=["self", "root"], vars={"self": "Parser", "root": "Ref@ASTNode", "t1": "Token", "node": "Ref@ASTNode"},
     ret="Ref@ASTNode", out=["self"], heap=_PH)
spec(lean="parser_parse_color", module="AlgoAsc", file=_ASC, cls="Parser", func="_parse_color", callee=["self._parse_color"],
     params=["self", "root"], vars={"self": "Parser", "root": "Ref@ASTNode", "t1": "Token", "t2": "Token", "t3": "Token", "node": "Ref@ASTNode"},
     ret="Ref@ASTNode", out=["self"], heap=_PH)
spec(lean="parser_parse_node", module="AlgoAsc", file=_ASC, cls="Parser", func="_parse_node", callee=["self._parse_node"],
     params=["self", "root"],
     vars={"self": "Parser", "root": "Ref@ASTNode", "t1": "Token", "t2": "Token", "t3": "Token", "t4": "Token", "t5": "Token",
           "x": "PyAtom", "y": "PyAtom", "z": "PyAtom", "r": "PyAtom", "node": "Ref@ASTNode"},
     ret="Ref@ASTNode", out=["self"], heap=_PH)
spec(lean="parser_parse_subtree", module="AlgoAsc", file=_ASC, cls="Parser", func="_parse_subtree", callee=["self._parse_subtree"],
     params=["self", "root", "flag"],
     vars={"self": "Parser", "root": "Ref@ASTNode", "flag": "Bool", "current": "Ref@ASTNode", "token": "Option Token", "excepted": "String"},
     ret="Unit", out=["self"], fuel=True, rec_group="subtree", heap=_PH, skip_stmts=_TOKENS_DROPPED)
spec(lean="parser_parse_split", module="AlgoAsc", file=_ASC, cls="Parser", func="_parse_split", callee=["self._parse_split"],
     params=["self", "root", "flag"], vars={"self": "Parser", "root": "Ref@ASTNode", "flag": "Bool"},
     ret="Unit", out=["self"], fuel=True, rec_group="subtree", heap=_PH)
spec(lean="parser_parse_tree", module="AlgoAsc", file=_ASC, cls="Parser", func="_parse_tree", callee=["self._parse_tree"],
     params=["self", "root"], vars={"self": "Parser", "root": "Ref@ASTNode", "t1": "Token", "t2": "Token", "t3": "Token", "node": "Ref@ASTNode"},
     ret="Unit", out=["self"], fuel=True, heap=_PH, skip_stmts=_TOKENS_DROPPED)
spec(lean="parser_parse", module="AlgoAsc", file=_ASC, cls="Parser", func="_parse",
     params=["self"], vars={"self": "Parser", "root": "Ref@ASTNode", "token": "Option Token"},
     ret="Ref@ASTNode", out=["self"], fuel=True, heap=_PH, skip_stmts=_TOKENS_DROPPED)

# `from_ast`: the table under construction (`ndata`, a dict of seven lists) is its seven columns; the default `SWCTypes` codes are the
# constants translate_consts extracts (Gen/Consts.lean); the `Tree` built at the end is (number of nodes, columns)
_COLS = ["id", "type", "x", "y", "z", "r", "pid"]
_COLT = {"id": "List Int", "type": "List Int", "x": "List PyAtom", "y": "List PyAtom", "z": "List PyAtom", "r": "List PyAtom", "pid": "List Int"}
_ND = {f"ndata[names.{c}]": (f"v.col_{c}", _COLT[c]) for c in _COLS}
_NDS = {f"ndata[names.{c}]": f"col_{c}" for c in _COLS}
_TY = {"types.undefined": ("Gen.Consts.type_undefined", "Int"), "types.axon": ("Gen.Consts.type_axon", "Int"),
       "types.basal_dendrite": ("Gen.Consts.type_basal_dendrite", "Int")}
_WV = dict({"nodes": "List ASTNode", "next_id": "Int", "typee": "List Int"}, **{f"col_{c}": _COLT[c] for c in _COLS})
_CAPS = ["nodes", "next_id", "typee"] + [f"col_{c}" for c in _COLS]
spec(lean="walk_ast", module="AlgoAsc", file=_ASC, cls="NeurolucidaAscToSwc", func="from_ast", nested="walk_ast",
     params=["root"], captures=_CAPS, fuel=True, ret="Unit", heap={"ASTNode": "nodes"}, subst=dict(_ND, **_TY), stores=_NDS,
     vars=dict(_WV, root="Ref@ASTNode", stack="List ((Option Ref@ASTNode) × Int)", node="Option Ref@ASTNode", pid="Int", idx="Int",
               x="PyAtom", y="PyAtom", z="PyAtom", r="PyAtom", n="Ref@ASTNode"),
     doc="`neurolucida_asc.py::NeurolucidaAscToSwc.from_ast`, nested `walk_ast` (the AST is a heap of nodes, `ndata` its seven columns)")
spec(lean="from_ast", module="AlgoAsc", file=_ASC, cls="NeurolucidaAscToSwc", func="from_ast",
     params=["nodes", "ast"], fuel=True, heap={"ASTNode": "nodes"}, closures={"walk_ast": "walk_ast"},
     vars=dict(_WV, ast="Ref@ASTNode"),
     ret="Int × (List Int) × (List Int) × (List PyAtom) × (List PyAtom) × (List PyAtom) × (List PyAtom) × (List Int)",
     subst=dict(_TY, tree=("(v.next_id, v.col_id, v.col_type, v.col_x, v.col_y, v.col_z, v.col_r, v.col_pid)",
                           "Int × (List Int) × (List Int) × (List PyAtom) × (List PyAtom) × (List PyAtom) × (List PyAtom) × (List Int)")),
     skip_stmts=["names = get_names(names)", "types = get_types(types)", "ndata = {n: [] for n in names.cols()}",
                 "tree = Tree(next_id, source=ast.source, names=names, **ndata)"],
     doc="`neurolucida_asc.py::NeurolucidaAscToSwc.from_ast` (the AST is a heap of nodes and the root's reference; the result is the "
         "number of nodes and the seven columns handed to `Tree`)")
