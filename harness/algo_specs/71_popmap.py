# C19 (T32 `mstrest`, part 2): `Population.find_swcs`, `LazyLoadingTrees.__iter__`, `Population.map`, `filter_population`  ->  Gen/AlgoPopMap.lean
MODULE_IMPORTS["AlgoPopMap"] = ["AlgoPopFront"]
MODULE_MODEL_IMPORTS["AlgoPopMap"] = ["PyPopFront"]
share_hooks("AlgoPopFront", "AlgoPopMap")
_PM = "swcgeom/core/population.py"

# GENERAL constructs added here (hooks; nothing keyed on a function name):
#   * a call of a PURE library function on strings for which the spec declares a pure-function parameter (`fparams`): `os.path.join(a, b)` -> `join a b`,
#     `os.path.relpath(a, b)` -> `relpath_of a b`, `os.path.splitext(a)[-1]` -> `ext_of a`, `os.path.exists(a)` -> `exists a` (nothing is assumed about them)
#   * `f(a, …)` where `f` is a declared pure-function parameter `(f : A → … → R)` of the spec: the application `f a …`
#   * `filter(lambda x: E, xs)` with a pure Boolean `E` over a list `xs`: the list `xs.filter (fun x => E)` of what the lazy iterator yields (the
#     iterator is consumed ONCE where it is used; a second consumption — which would see nothing — is outside this rule)
#   * `(t for t in X)` (identity element, no condition) over an object `X` of a translated class with a translated `__iter__`: `X.__iter__()`
_PM_PURE = {"os.path.join": ("join", 2, "String"), "os.path.relpath": ("relpath_of", 2, "String"), "os.path.exists": ("exists", 1, "Bool")}


def _pm_fparam(tr, name):
    return any(fp.split()[0].strip("(") == name for fp in tr.spec.fparams)


def _pm_expr(tr, e, want):
    if (isinstance(e, ast.Call) and ast.unparse(e.func) == "enumerate" and len(e.args) == 1 and not e.keywords):
        # `enumerate(X)` over an object with a translated `__iter__`: enumerate of the list `X.__iter__()` yields (the elements are produced before a PURE body runs)
        t = _popf_static_type(tr, e.args[0])
        if isinstance(t, str) and (t, "__iter__") in POPF_METHODS:
            call = ast.Call(e.func, [ast.Call(ast.Attribute(e.args[0], "__iter__", ast.Load()), [], [])], [])
            ast.copy_location(call, e); ast.fix_missing_locations(call)
            return tr.tr(call, want)
    if isinstance(e, ast.Call) and isinstance(e.func, ast.Name) and not e.keywords and e.func.id not in tr.vars:
        # a call of a declared pure-function parameter `(f : A → B → R)`
        for fp in tr.spec.fparams:
            name, _, sig = fp.strip("()").partition(" : ")
            if name.strip() == e.func.id:
                parts = [x.strip() for x in sig.split("→")]
                if len(parts) != len(e.args) + 1:
                    return None
                steps, codes = [], []
                for a, pt in zip(e.args, parts[:-1]):
                    s0, c, t = tr.tr(a, parse_type(pt))
                    if show_type(t) != show_type(parse_type(pt)):
                        return None
                    steps += s0; codes.append(c)
                return steps, f"({name.strip()} {' '.join(codes)})", parse_type(parts[-1])
    if isinstance(e, ast.Call) and not e.keywords and ast.unparse(e.func) in _PM_PURE:
        name, k, rt = _PM_PURE[ast.unparse(e.func)]
        if len(e.args) != k or not _pm_fparam(tr, name):
            return None
        steps, codes = [], []
        for a in e.args:
            s0, c, t = tr.tr(a)
            if t != "String":
                return None
            steps += s0; codes.append(c)
        return steps, f"({name} {' '.join(codes)})", rt
    if (isinstance(e, ast.Subscript) and isinstance(e.slice, ast.UnaryOp) and isinstance(e.slice.op, ast.USub) and isinstance(e.slice.operand, ast.Constant)
            and e.slice.operand.value == 1 and isinstance(e.value, ast.Call) and ast.unparse(e.value.func) == "os.path.splitext"
            and len(e.value.args) == 1 and not e.value.keywords and _pm_fparam(tr, "ext_of")):
        s0, c, t = tr.tr(e.value.args[0])
        if t != "String":
            return None
        return s0, f"(ext_of {c})", "String"
    if (isinstance(e, ast.Call) and ast.unparse(e.func) == "filter" and len(e.args) == 2 and not e.keywords and isinstance(e.args[0], ast.Lambda)
            and len(e.args[0].args.args) == 1 and not e.args[0].args.defaults):
        s0, xs, t = tr.tr(e.args[1])
        if not (isinstance(t, tuple) and t[0] == "List"):
            return None
        x = e.args[0].args.args[0].arg
        old = dict(tr.spec.subst)
        bound = f"{lname(x)}_b"
        tr.spec.subst = dict(old, **{x: (bound, t[1])})
        try:
            s1, c, tc = tr.tr(e.args[0].body)
        finally:
            tr.spec.subst = old
        if s1 or tc != "Bool":
            raise Untranslatable(f"{tr.spec.lean}: the predicate of `{ast.unparse(e)}` is not a pure condition")
        return s0, f"(List.filter (fun {bound} => {c}) {xs})", t
    if (isinstance(e, ast.GeneratorExp) and len(e.generators) == 1 and not e.generators[0].ifs and isinstance(e.generators[0].target, ast.Name)
            and isinstance(e.elt, ast.Name) and e.elt.id == e.generators[0].target.id):
        t = _popf_static_type(tr, e.generators[0].iter)
        if isinstance(t, str) and (t, "__iter__") in POPF_METHODS:
            call = ast.Call(ast.Attribute(e.generators[0].iter, "__iter__", ast.Load()), [], [])
            ast.copy_location(call, e); ast.fix_missing_locations(call)
            return tr.tr(call, want)
    return None



def _pm_stmt(tr, s):
    # X = [elt for tgt in it if c]   ->   X = []; for tgt in it: (if c: X.append(elt))      (X not mentioned in the comprehension)
    if (isinstance(s, ast.Assign) and len(s.targets) == 1 and isinstance(s.targets[0], ast.Name) and isinstance(s.value, ast.ListComp)
            and len(s.value.generators) == 1 and len(s.value.generators[0].ifs) == 1 and not s.value.generators[0].is_async):
        X = s.targets[0].id
        if any(isinstance(n, ast.Name) and n.id == X for n in ast.walk(s.value)):
            return None
        g = s.value.generators[0]
        new = ast.parse(f"{X} = []\nfor {ast.unparse(g.target)} in {ast.unparse(g.iter)}:\n    if {ast.unparse(g.ifs[0])}:\n        {X}.append({ast.unparse(s.value.elt)})").body
        for st in new:
            ast.copy_location(st, s)
        return tr.block(new)
    return None


EXPR_HOOKS.append(_pm_expr)
STMT_HOOKS.append(_pm_stmt)

spec(lean="find_swcs", module="AlgoPopMap", file=_PM, cls="Population", func="find_swcs",
     params=["walk", "root", "ext", "relpath"],
     fparams=["(relpath_of : String → String → String)", "(ext_of : String → String)", "(join : String → String → String)"],
     vars={"walk": "List (String × List String × List String)", "root": "String", "ext": "String", "relpath": "Bool", "swcs": "List String",
           "r": "String", "underscore": "List String", "files": "List String", "rr": "String", "fs": "List String", "f": "String"},
     ret="List String",
     subst={"os.walk(root)": ("v.walk", "List (String × List String × List String)")},
     doc="`swcgeom/core/population.py::Population.find_swcs` (`os.walk(root)` is the DATA `walk`: the list of `(dirpath, dirnames, filenames)` it yields; "
         "`os.path.relpath`, `os.path.splitext(·)[-1]`, `os.path.join` are pure function parameters)")

_PM_READ = {"Tree.from_swc": ("(read : σ → Int → σ × Int)", 1, "Int")}
spec(lean="lazy_iter", module="AlgoPopMap", file=_PM, cls="LazyLoadingTrees", func="__iter__",
     params=["self"], vars={"self": "LazyLoadingTrees", "i": "Int"}, ret="List (Option Int)", out=["self"], tparams=["σ"], callbacks=_PM_READ,
     doc="`swcgeom/core/population.py::LazyLoadingTrees.__iter__` consumed to the end (the generator it returns, as the list of what it yields)")
POPF_METHODS[("LazyLoadingTrees", "__iter__")] = "lazy_iter"

_PM_EXEC = ("if verbose:\n    results = process_map(fn, trees, max_workers=max_worker)\nelse:\n    with ProcessPoolExecutor(max_worker) as p:\n"
            "        results = p.map(fn, trees)")
spec(lean="pop_map", module="AlgoPopMap", file=_PM, cls="Population", func="map",
     params=["self"], absent=["max_worker", "verbose"], fparams=["(fn : Option Int → Int)"],
     vars={"self": "Population", "trees": "List (Option Int)", "results": "List Int", "t": "Option Int"},
     ret="List Int", out=["self"], tparams=["σ"], callbacks=_PM_READ,
     stmt_subst={_PM_EXEC: "results = [fn(t) for t in trees]"},
     doc="`swcgeom/core/population.py::Population.map`: the trees of the container in order (its `__iter__`, consumed by the executor), the mapped function "
         "`fn` a pure function parameter (it runs in worker processes), `Executor.map` / `process_map` = the results in the order of the inputs")

POPF_METHODS[("Population", "__iter__")] = "pop_iter"
STRUCTS["PopNest"] = {"trees": "NestLazy", "root": "String"}
MODULE_STRUCTS["AlgoPopMap"] = ["PopNest"]
_popf("popn_init", "Population", "__init__", "PopNest", ctor=True, module="AlgoPopMap", params=["self", "swcs", "root"],
      vars={"swcs": "NestLazy", "root": "String", "trees": "NestLazy", "warnings_": "List Int"}, out=["self"],
      tparams=["σ"], callbacks=_PM_READ, skip_stmts=["super().__init__()"],
      doc="`swcgeom/core/population.py::Population.__init__`, overload `Population(trees, /, *, root)` with a `NestTrees` over a lazy container (what "
          "`filter_population` builds)")
spec(lean="filter_population", module="AlgoPopMap", file=_PM, func="filter_population",
     params=["pop"], fparams=["(predicate : Option Int → Bool)"],
     vars={"pop": "Population", "idx": "List Int", "i": "Int", "t": "Option Int"},
     ret="PopNest", out=["pop"], tparams=["σ"], callbacks=_PM_READ,
     doc="`swcgeom/core/population.py::filter_population` (`predicate` a pure function parameter)")
