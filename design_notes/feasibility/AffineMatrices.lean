import Mathlib.Tactic.Ring
import Mathlib.Tactic.LinearCombination
import Mathlib.Algebra.Field.Basic

/-! spike: generated 4x4 matrices as nested lists over K; affine apply; centre conjugation -/
section
variable {K : Type} [Field K]

abbrev Mat (K : Type) := List (List K)
def dot (u v : List K) : K := (List.zipWith (· * ·) u v).sum
def col (m : Mat K) (j : Nat) : List K := m.map (fun r => r.getD j 0)
def mmul (a b : Mat K) : Mat K := a.map (fun r => (List.range 4).map (fun j => dot r (col b j)))
def mapply (m : Mat K) (p : K × K × K) : K × K × K :=
  let v := [p.1, p.2.1, p.2.2, 1]
  let w := m.map (fun r => dot r v)
  (w.getD 0 0 / w.getD 3 1, w.getD 1 0 / w.getD 3 1, w.getD 2 0 / w.getD 3 1)

-- what the translator would emit from utils/transforms.py
def scale3d (sx sy sz : K) : Mat K := [[sx,0,0,0],[0,sy,0,0],[0,0,sz,0],[0,0,0,1]]
def translate3d (tx ty tz : K) : Mat K := [[1,0,0,tx],[0,1,0,ty],[0,0,1,tz],[0,0,0,1]]
def rotate3d_z (c s : K) : Mat K := [[c,-s,0,0],[s,c,0,0],[0,0,1,0],[0,0,0,1]]

-- conjugation as in the *repaired* AffineTransform.__call__
def aboutCentre (tm : Mat K) (c : K × K × K) : Mat K :=
  mmul (mmul (translate3d c.1 c.2.1 c.2.2) tm) (translate3d (-c.1) (-c.2.1) (-c.2.2))
-- as in the current code (reversed)
def aboutCentreCur (tm : Mat K) (c : K × K × K) : Mat K :=
  mmul (mmul (translate3d (-c.1) (-c.2.1) (-c.2.2)) tm) (translate3d c.1 c.2.1 c.2.2)

theorem scale_about_centre (sx sy sz cx cy cz x y z : K) :
    mapply (aboutCentre (scale3d sx sy sz) (cx,cy,cz)) (x,y,z)
      = (cx + sx*(x-cx), cy + sy*(y-cy), cz + sz*(z-cz)) := by
  simp [mapply, aboutCentre, mmul, dot, col, scale3d, translate3d, List.range, List.range.loop]
  refine ⟨by ring, by ring, by ring⟩

theorem centre_fixed (sx sy sz cx cy cz : K) :
    mapply (aboutCentre (scale3d sx sy sz) (cx,cy,cz)) (cx,cy,cz) = (cx,cy,cz) := by
  simp [mapply, aboutCentre, mmul, dot, col, scale3d, translate3d, List.range, List.range.loop]

theorem rotz_isometry (c s cx cy cz x y z x' y' z' : K) (h : c*c + s*s = 1) :
    let f := mapply (aboutCentre (rotate3d_z c s) (cx,cy,cz))
    let d2 := fun (p q : K × K × K) => (p.1-q.1)^2 + (p.2.1-q.2.1)^2 + (p.2.2-q.2.2)^2
    d2 (f (x,y,z)) (f (x',y',z')) = d2 (x,y,z) (x',y',z') := by
  simp [mapply, aboutCentre, mmul, dot, col, rotate3d_z, translate3d, List.range, List.range.loop]
  linear_combination ((x-x')^2 + (y-y')^2) * h
end

-- the current code does NOT fix the centre: concrete witness over ℚ
example : mapply (aboutCentreCur (scale3d (2:ℚ) 2 2) (5,5,5)) (5,5,5) = (15,15,15) := by
  norm_num [mapply, aboutCentreCur, mmul, dot, col, scale3d, translate3d, List.range, List.range.loop]
#print axioms rotz_isometry
