/-! Feasibility spike (C05): the stack loop of `sort_nodes_impl` equals a structural
pre-order (later siblings first) on `Rose`; the output is a permutation of the ids and
every new parent index is smaller than the node's own new index. -/
inductive Rose where
  | node : Int → List Rose → Rose

namespace Rose
def id : Rose → Int | node i _ => i
end Rose

mutual
def Rose.size : Rose → Nat
  | .node _ ks => 1 + sizeL ks
def sizeL : List Rose → Nat
  | [] => 0
  | r :: rs => r.size + sizeL rs
end

mutual
def Rose.ids : Rose → List Int
  | .node i ks => i :: idsL ks
def idsL : List Rose → List Int
  | [] => []
  | r :: rs => r.ids ++ idsL rs
end

mutual
def Agrees (kidsOf : Int → List Int) : Rose → Prop
  | .node i ks => kidsOf i = ks.map Rose.id ∧ AgreesL kidsOf ks
def AgreesL (kidsOf : Int → List Int) : List Rose → Prop
  | [] => True
  | r :: rs => Agrees kidsOf r ∧ AgreesL kidsOf rs
end

/-- machine state: stack of (old id, new parent index) with the top at the head; output rows
    (old id, new parent index) in order of new id -/
structure St where
  stack : List (Int × Int)
  out   : List (Int × Int)

def step (kidsOf : Int → List Int) (st : St) : Option St :=
  match st.stack with
  | [] => none
  | (o, p) :: rest =>
    let k : Int := st.out.length
    some { stack := ((kidsOf o).map (·, k)).reverse ++ rest, out := st.out ++ [(o, p)] }

def run (kidsOf : Int → List Int) : Nat → St → St
  | 0, st => st
  | n+1, st => match step kidsOf st with
    | none => st
    | some st' => run kidsOf n st'

mutual
/-- rows produced for a subtree whose root gets new parent `p` and new id `k` -/
def pre : Rose → Int → Nat → List (Int × Int)
  | .node i ks, p, k => (i, p) :: preRev ks k (k + 1)
/-- kids are emitted from the last to the first; `par` is their common new parent index,
    `k` the next free new id -/
def preRev : List Rose → Nat → Nat → List (Int × Int)
  | [], _, _ => []
  | r :: rs, par, k =>
    let a := preRev rs par k
    a ++ pre r par (k + a.length)
end

theorem run_succ_some {kidsOf : Int → List Int} {st st' : St} (n : Nat) (h : step kidsOf st = some st') :
    run kidsOf (n+1) st = run kidsOf n st' := by simp [run, h]

theorem run_add (kidsOf : Int → List Int) (a b : Nat) (st : St) :
    run kidsOf (a + b) st = run kidsOf b (run kidsOf a st) := by
  induction a generalizing st with
  | zero => simp [run]
  | succ a ih =>
    cases hs : step kidsOf st with
    | none =>
      have h1 : ∀ n, run kidsOf n st = st := by intro n; cases n <;> simp [run, hs]
      rw [h1, h1, h1]
    | some st' =>
      have : a + 1 + b = (a + b) + 1 := by omega
      rw [this, run_succ_some _ hs, run_succ_some _ hs]
      exact ih st'

mutual
theorem pre_length : ∀ (r : Rose) (p : Int) (k : Nat), (pre r p k).length = r.size
  | .node i ks, p, k => by simp [pre, Rose.size, preRev_length ks k (k+1)]; omega
theorem preRev_length : ∀ (ks : List Rose) (par k : Nat), (preRev ks par k).length = sizeL ks
  | [], _, _ => by simp [preRev, sizeL]
  | r :: rs, par, k => by
    simp [preRev, sizeL, preRev_length rs par k, pre_length r]; omega
end

mutual
theorem main (kidsOf : Int → List Int) : ∀ (r : Rose), Agrees kidsOf r →
    ∀ (rest : List (Int × Int)) (out : List (Int × Int)) (p : Int),
    run kidsOf r.size ⟨(r.id, p) :: rest, out⟩ = ⟨rest, out ++ pre r p out.length⟩
  | .node i ks, hA, rest, out, p => by
    simp only [Agrees] at hA
    obtain ⟨hk, hAL⟩ := hA
    have e : (Rose.node i ks).size = 1 + sizeL ks := by simp [Rose.size]
    rw [e, run_add]
    have h1 : run kidsOf 1 ⟨((Rose.node i ks).id, p) :: rest, out⟩ =
        ⟨(ks.map (fun c => (c.id, (out.length : Int)))).reverse ++ rest, out ++ [(i, p)]⟩ := by
      simp [run, step, Rose.id, hk, List.map_map, Function.comp_def]
    rw [h1]
    have := mainL kidsOf ks hAL rest (out ++ [(i, p)]) out.length
    rw [this]
    simp [pre]
theorem mainL (kidsOf : Int → List Int) : ∀ (ks : List Rose), AgreesL kidsOf ks →
    ∀ (rest : List (Int × Int)) (out : List (Int × Int)) (par : Nat),
    run kidsOf (sizeL ks) ⟨(ks.map (fun c => (c.id, (par : Int)))).reverse ++ rest, out⟩
      = ⟨rest, out ++ preRev ks par out.length⟩
  | [], _, rest, out, par => by simp [sizeL, run, preRev]
  | r :: rs, hA, rest, out, par => by
    simp only [AgreesL] at hA
    obtain ⟨hAr, hArs⟩ := hA
    have e : sizeL (r :: rs) = sizeL rs + r.size := by simp [sizeL]; omega
    rw [e, run_add]
    have hstack : ((r :: rs).map (fun c => (c.id, (par : Int)))).reverse ++ rest
        = (rs.map (fun c => (c.id, (par : Int)))).reverse ++ ((r.id, (par : Int)) :: rest) := by simp
    rw [hstack, mainL kidsOf rs hArs, main kidsOf r hAr]
    simp [preRev, Nat.add_comm]
end

-- the emitted old ids are a permutation of the tree's ids
mutual
theorem pre_perm : ∀ (r : Rose) (p : Int) (k : Nat), ((pre r p k).map Prod.fst).Perm r.ids
  | .node i ks, p, k => by
    simp only [pre, List.map_cons, Rose.ids]
    exact List.Perm.cons _ (preRev_perm ks k (k+1))
theorem preRev_perm : ∀ (ks : List Rose) (par k : Nat), ((preRev ks par k).map Prod.fst).Perm (idsL ks)
  | [], _, _ => by simp [preRev, idsL]
  | r :: rs, par, k => by
    simp only [preRev, List.map_append, idsL]
    exact (List.perm_append_comm).trans ((pre_perm r _ _).append (preRev_perm rs par k))
end

-- sortedness: in the rows emitted for a subtree that starts at new id `k` with parent index `p < k`,
-- the row at offset `j` has a parent index smaller than `k + j`
mutual
theorem pre_sorted : ∀ (r : Rose) (p : Int) (k : Nat), p < k →
    ∀ j (hj : j < (pre r p k).length), ((pre r p k)[j]).2 < ((k + j : Nat) : Int)
  | .node i ks, p, k, hp, j, hj => by
    cases j with
    | zero => simp [pre]; exact hp
    | succ j =>
      simp only [pre, List.getElem_cons_succ]
      have := preRev_sorted ks k (k+1) (by omega) j (by simpa [pre] using hj)
      have e : k + (j + 1) = k + 1 + j := by omega
      rw [e]; exact this
theorem preRev_sorted : ∀ (ks : List Rose) (par k : Nat), par < k →
    ∀ j (hj : j < (preRev ks par k).length), ((preRev ks par k)[j]).2 < ((k + j : Nat) : Int)
  | [], _, _, _, j, hj => by simp [preRev] at hj
  | r :: rs, par, k, hp, j, hj => by
    simp only [preRev]
    by_cases h : j < (preRev rs par k).length
    · rw [List.getElem_append_left h]
      exact preRev_sorted rs par k hp j h
    · rw [List.getElem_append_right (by omega)]
      have hj' : j - (preRev rs par k).length < (pre r par (k + (preRev rs par k).length)).length := by
        simp [preRev] at hj; omega
      have := pre_sorted r par (k + (preRev rs par k).length) (by exact_mod_cast (by omega : par < k + (preRev rs par k).length))
        (j - (preRev rs par k).length) hj'
      have e : k + (preRev rs par k).length + (j - (preRev rs par k).length) = k + j := by omega
      rw [e] at this; exact this
end

#eval (pre (.node 10 [.node 2 [.node 3 []], .node 7 []]) (-1) 0)
#print axioms main
#print axioms pre_perm
#print axioms pre_sorted
