import Mathlib.Analysis.SpecialFunctions.Integrals.Basic
open intervalIntegral
theorem integral_quadratic (A B C a b : ℝ) :
    ∫ z in a..b, (A + B * z + C * z^2) = A*(b-a) + B*(b^2-a^2)/2 + C*(b^3-a^3)/3 := by
  rw [integral_add, integral_add] <;> try (apply Continuous.intervalIntegrable; fun_prop)
  rw [integral_const, integral_const_mul, integral_const_mul, integral_id, integral_pow]
  simp only [smul_eq_mul]; ring

def lensVol {K} [Add K] [Sub K] [Mul K] [Div K] [OfNat K 2] [OfNat K 3] [OfNat K 6] [OfNat K 12] (pi r1 r2 d : K) : K :=
  (pi / (12 * d)) * ((r1 + r2 - d)*(r1 + r2 - d)) * (d*d + 2*d*r1 - 3*(r1*r1) + 2*d*r2 - 3*(r2*r2) + 6*r1*r2)

theorem lens_volume (r1 r2 d : ℝ) (hd : d ≠ 0) :
    Real.pi * ((∫ z in ((d^2 + r1^2 - r2^2) / (2*d))..r1, (r1^2 - z^2)) + ∫ z in (d - r2)..((d^2 + r1^2 - r2^2) / (2*d)), (r2^2 - (z-d)^2)) = lensVol Real.pi r1 r2 d := by
  have e1 : ∀ z : ℝ, r1^2 - z^2 = r1^2 + 0 * z + (-1) * z^2 := by intro z; ring
  have e2 : ∀ z : ℝ, r2^2 - (z-d)^2 = (r2^2 - d^2) + (2*d)*z + (-1) * z^2 := by intro z; ring
  simp only [e1, e2, integral_quadratic, lensVol]
  field_simp
  ring
#print axioms lens_volume
