import Mathlib.Analysis.SpecialFunctions.Integrals.Basic
open intervalIntegral
theorem integral_quadratic (A B C a b : ℝ) :
    ∫ z in a..b, (A + B * z + C * z^2) = A*(b-a) + B*(b^2-a^2)/2 + C*(b^3-a^3)/3 := by
  rw [integral_add, integral_add] <;> try (apply Continuous.intervalIntegrable; fun_prop)
  rw [integral_const, integral_const_mul, integral_const_mul, integral_id, integral_pow]
  simp only [smul_eq_mul]; ring

noncomputable def capVol (pi r h : ℝ) : ℝ := pi * (h*h) * (3 * r - h) / 3
noncomputable def frustumVol (pi r1 r2 h : ℝ) : ℝ := (1 / 3) * pi * h * (r1*r1 + r1 * r2 + r2*r2)

/-- cone leaves the sphere at height zs ≤ r1 ≤ h: intersection = frustum part up to zs + spherical cap above -/
theorem sphere_frustum_high (r1 r2 h : ℝ) (hr2 : 0 < r2) (hlt : r2 < r1) (hh : r1 ≤ h) :
    let k := (r2 - r1) / h
    let zs := -2 * r1 * k / (k^2 + 1)
    Real.pi * ∫ z in (0:ℝ)..r1, min (r1^2 - z^2) ((r1 + k * z)^2)
      = capVol Real.pi r1 (r1 - zs) + frustumVol Real.pi r1 (r1 + k * zs) zs := by
  intro k zs
  have hr1 : 0 < r1 := lt_trans hr2 hlt
  have hh0 : 0 < h := lt_of_lt_of_le hr1 hh
  have hk : k < 0 := div_neg_of_neg_of_pos (by linarith) hh0
  have hk1 : 0 < k^2 + 1 := by positivity
  have hzs0 : 0 ≤ zs := by
    have : 0 ≤ -2 * r1 * k := by nlinarith
    exact div_nonneg this hk1.le
  -- key identity at zs
  have hzs : zs * (k^2 + 1) = -2 * r1 * k := by
    simp only [zs]; field_simp
  -- zs ≤ r1 : since -k ≤ 1 ... use -2 r1 k ≤ r1 (k^2+1) ⇔ r1 (k+1)^2 ≥ 0
  have hzs1 : zs ≤ r1 := by
    rw [show zs = -2 * r1 * k / (k^2+1) from rfl, div_le_iff₀ hk1]
    nlinarith [sq_nonneg (k+1)]
  -- pointwise comparison
  have key : ∀ z : ℝ, (r1 + k*z)^2 - (r1^2 - z^2) = z * ((k^2+1) * z - zs * (k^2+1)) := by
    intro z; rw [hzs]; ring
  have hlow : ∀ z ∈ Set.uIcc (0:ℝ) zs, min (r1^2 - z^2) ((r1 + k * z)^2) = (r1 + k*z)^2 := by
    intro z hz
    rw [Set.uIcc_of_le hzs0] at hz
    apply min_eq_right
    have := key z
    have h2 : z * ((k^2+1) * z - zs * (k^2+1)) ≤ 0 := by
      apply mul_nonpos_of_nonneg_of_nonpos hz.1
      nlinarith [hz.2]
    linarith
  have hhigh : ∀ z ∈ Set.uIcc zs r1, min (r1^2 - z^2) ((r1 + k * z)^2) = r1^2 - z^2 := by
    intro z hz
    rw [Set.uIcc_of_le hzs1] at hz
    apply min_eq_left
    have := key z
    have h2 : 0 ≤ z * ((k^2+1) * z - zs * (k^2+1)) := by
      apply mul_nonneg (le_trans hzs0 hz.1)
      nlinarith [hz.1]
    linarith
  have hcont : Continuous fun z : ℝ => min (r1^2 - z^2) ((r1 + k * z)^2) := by fun_prop
  rw [← integral_add_adjacent_intervals (b := zs) (hcont.intervalIntegrable _ _) (hcont.intervalIntegrable _ _)]
  rw [integral_congr hlow, integral_congr hhigh]
  have e1 : ∀ z : ℝ, (r1 + k*z)^2 = r1^2 + (2*r1*k) * z + (k^2) * z^2 := by intro z; ring
  have e2 : ∀ z : ℝ, r1^2 - z^2 = r1^2 + 0 * z + (-1) * z^2 := by intro z; ring
  simp only [e1, e2, integral_quadratic, capVol, frustumVol]
  ring
#print axioms sphere_frustum_high
