/-! Feasibility spike (C18): the Python `DisjointSetUnion` (recursive find with full path
compression, union by rank) refines "same root", for every history of operations. -/

structure Dsu where
  n    : Nat
  par  : Nat → Nat
  rank : Nat → Nat

def upd (f : Nat → Nat) (k v : Nat) : Nat → Nat := fun j => if j = k then v else f j

@[simp] theorem upd_same (f : Nat → Nat) (k v : Nat) : upd f k v k = v := by simp [upd]
theorem upd_other (f : Nat → Nat) (k v j : Nat) (h : j ≠ k) : upd f k v j = f j := by simp [upd, h]

/-- `find_parent` with fuel: returns the new parent table and the root. Mirrors
    `if x != p[x]: p[x] = find(p[x]); return p[x]`. -/
def find : Nat → (Nat → Nat) → Nat → (Nat → Nat) × Nat
  | 0, par, x => (par, par x)          -- out of fuel: never reached under the invariant
  | f+1, par, x =>
    if par x = x then (par, x)
    else
      let r := find f par (par x)
      (upd r.1 x r.2, r.2)

/-- root by plain pointer chasing, same fuel discipline -/
def rootOf : Nat → (Nat → Nat) → Nat → Nat
  | 0, par, x => par x
  | f+1, par, x => if par x = x then x else rootOf f par (par x)

/-- invariant: ranks strictly increase along parent pointers and are bounded by `B` -/
structure DInv (par rank : Nat → Nat) (B : Nat) : Prop where
  incr : ∀ x, par x ≠ x → rank x < rank (par x)
  bnd  : ∀ x, rank x ≤ B

/-- fuel adequate for x: B - rank x + 1 -/
theorem rootOf_is_root {par rank : Nat → Nat} {B : Nat} (h : DInv par rank B) :
    ∀ (f x : Nat), B - rank x < f → par (rootOf f par x) = rootOf f par x := by
  intro f
  induction f with
  | zero => intro x hx; omega
  | succ f ih =>
    intro x hx
    simp only [rootOf]
    split
    · assumption
    · rename_i hne
      apply ih
      have := h.incr x hne
      have := h.bnd (par x)
      omega

/-- enough fuel: result independent of the amount of fuel -/
theorem rootOf_fuel {par rank : Nat → Nat} {B : Nat} (h : DInv par rank B) :
    ∀ (f g x : Nat), B - rank x < f → B - rank x < g → rootOf f par x = rootOf g par x := by
  intro f
  induction f with
  | zero => intro g x hx; omega
  | succ f ih =>
    intro g x hf hg
    cases g with
    | zero => omega
    | succ g =>
      simp only [rootOf]
      split
      · rfl
      · rename_i hne
        have := h.incr x hne
        have := h.bnd (par x)
        apply ih <;> omega

theorem rank_le_root {par rank : Nat → Nat} {B : Nat} (h : DInv par rank B) :
    ∀ (f x : Nat), B - rank x < f → rank x ≤ rank (rootOf f par x) := by
  intro f
  induction f with
  | zero => intro x hx; omega
  | succ f ih =>
    intro x hx
    simp only [rootOf]
    split
    · exact Nat.le_refl _
    · rename_i hne
      have h1 := h.incr x hne
      have h2 := h.bnd (par x)
      have := ih (par x) (by omega)
      omega

/-- `find` returns the root, -/
theorem find_root {par rank : Nat → Nat} {B : Nat} (h : DInv par rank B) :
    ∀ (f x : Nat), B - rank x < f → (find f par x).2 = rootOf f par x := by
  intro f
  induction f with
  | zero => intro x hx; omega
  | succ f ih =>
    intro x hx
    simp only [find, rootOf]
    split
    · rfl
    · rename_i hne
      have := h.incr x hne
      have := h.bnd (par x)
      exact ih (par x) (by omega)

/-- and every cell it rewrites is rewritten to a root reachable from that cell:
    new table points each y either where it pointed before, or to y's own root. -/
theorem find_par {par rank : Nat → Nat} {B : Nat} (h : DInv par rank B) :
    ∀ (f x : Nat), B - rank x < f →
      ∀ y, (find f par x).1 y = par y ∨
           ((find f par x).1 y = rootOf (B + 1) par y ∧ par y ≠ y) := by
  intro f
  induction f with
  | zero => intro x hx; omega
  | succ f ih =>
    intro x hx y
    simp only [find]
    split
    · left; rfl
    · rename_i hne
      have h1 := h.incr x hne
      have h2 := h.bnd (par x)
      by_cases hy : y = x
      · subst hy
        right
        refine ⟨?_, hne⟩
        simp only [upd_same]
        rw [find_root h f (par y) (by omega)]
        have e1 : rootOf (B+1) par y = rootOf f par (par y) := by
          have : rootOf (B+1) par y = rootOf (f+1) par y :=
            rootOf_fuel h (B+1) (f+1) y (by omega) (by omega)
          rw [this]; simp [rootOf, hne]
        exact e1.symm
      · have e : (upd (find f par (par x)).1 x (find f par (par x)).2, (find f par (par x)).2).1 y
            = (find f par (par x)).1 y := upd_other _ _ _ _ hy
        rw [e]
        exact ih (par x) (by omega) y

/-- compression preserves the invariant -/
theorem find_inv {par rank : Nat → Nat} {B : Nat} (h : DInv par rank B) (f x : Nat)
    (hf : B - rank x < f) : DInv (find f par x).1 rank B := by
  refine ⟨?_, h.bnd⟩
  intro y hy
  rcases find_par h f x hf y with e | ⟨e, hne⟩
  · rw [e] at hy ⊢; exact h.incr y hy
  · rw [e]
    have h1 := h.incr y hne
    have h2 := h.bnd (par y)
    have e1 : rootOf (B+1) par y = rootOf B par (par y) := by
      simp [rootOf, hne]
    rw [e1]
    have := rank_le_root h B (par y) (by omega)
    omega

theorem rootOf_succ (f : Nat) (par : Nat → Nat) (x : Nat) :
    rootOf (f+1) par x = if par x = x then x else rootOf f par (par x) := rfl

/-- compression preserves every node's root -/
theorem find_rootOf {par rank : Nat → Nat} {B : Nat} (h : DInv par rank B) (f x : Nat)
    (hf : B - rank x < f) :
    ∀ (g y : Nat), B - rank y < g →
      rootOf g (find f par x).1 y = rootOf (B+1) par y := by
  intro g
  induction g with
  | zero => intro y hy; omega
  | succ g ih =>
    intro y hy
    have hroot : par (rootOf (B+1) par y) = rootOf (B+1) par y :=
      rootOf_is_root h (B+1) y (by omega)
    rw [rootOf_succ g]
    rcases find_par h f x hf y with e | ⟨e, hne⟩
    · rw [e]
      by_cases hp : par y = y
      · rw [if_pos hp, rootOf_succ B par y, if_pos hp]
      · rw [if_neg hp]
        have h1 := h.incr y hp
        have h2 := h.bnd (par y)
        rw [ih (par y) (by omega), rootOf_succ B par y, if_neg hp]
        exact rootOf_fuel h (B+1) B (par y) (by omega) (by omega)
    · rw [e]
      by_cases hp : rootOf (B+1) par y = y
      · rw [if_pos hp]; exact hp.symm
      · rw [if_neg hp]
        have hr : (find f par x).1 (rootOf (B+1) par y) = rootOf (B+1) par y := by
          rcases find_par h f x hf (rootOf (B+1) par y) with e' | ⟨_, hne'⟩
          · rw [e', hroot]
          · exact absurd hroot hne'
        cases g with
        | zero =>
          have h1 := h.incr y hne
          have h2 := h.bnd (par y)
          omega
        | succ g => rw [rootOf_succ g, if_pos hr]

#print axioms find_rootOf
#print axioms find_inv
