/-! Feasibility spike (C01): fixed-point `%.4f` text and its parse, on `List Char`. -/

def digitChar (d : Nat) : Char := Char.ofNat (48 + d)
def charDigit? (c : Char) : Option Nat :=
  if 48 ≤ c.toNat ∧ c.toNat ≤ 57 then some (c.toNat - 48) else none

theorem charDigit_digitChar (d : Nat) (h : d < 10) : charDigit? (digitChar d) = some d := by
  have : d = 0 ∨ d = 1 ∨ d = 2 ∨ d = 3 ∨ d = 4 ∨ d = 5 ∨ d = 6 ∨ d = 7 ∨ d = 8 ∨ d = 9 := by omega
  rcases this with h|h|h|h|h|h|h|h|h|h <;> subst h <;> decide

/-- decimal digits, most significant first -/
def natDigitsAux : Nat → Nat → List Char → List Char
  | 0, _, acc => acc
  | fuel+1, n, acc =>
    if n < 10 then digitChar n :: acc
    else natDigitsAux fuel (n / 10) (digitChar (n % 10) :: acc)
def natDigits (n : Nat) : List Char := natDigitsAux (n+1) n []

/-- value of a digit string, `none` if a non-digit occurs -/
def parseNatAux : List Char → Nat → Option Nat
  | [], acc => some acc
  | c :: cs, acc => match charDigit? c with
    | some d => parseNatAux cs (10 * acc + d)
    | none => none
def parseNat (cs : List Char) : Option Nat := if cs = [] then none else parseNatAux cs 0

theorem parseNatAux_append (a b : List Char) (acc : Nat) :
    parseNatAux (a ++ b) acc = (parseNatAux a acc).bind (parseNatAux b) := by
  induction a generalizing acc with
  | nil => simp [parseNatAux]
  | cons c cs ih =>
    simp only [List.cons_append, parseNatAux]
    cases charDigit? c <;> simp [ih]

/-- cleaner route: define digits by well-founded recursion and prove the round trip by strong induction -/
def digits (n : Nat) : List Char :=
  if h : n < 10 then [digitChar n] else digits (n / 10) ++ [digitChar (n % 10)]
termination_by n
decreasing_by omega

theorem parse_digits (n : Nat) (acc : Nat) :
    parseNatAux (digits n) acc = some (acc * 10 ^ (digits n).length + n) := by
  induction n using Nat.strongRecOn generalizing acc with
  | _ n ih =>
    rw [digits]
    split
    · rename_i h
      simp [parseNatAux, charDigit_digitChar n h]; omega
    · rename_i h
      have hlt : n / 10 < n := by omega
      rw [parseNatAux_append, ih (n/10) hlt]
      simp [parseNatAux, charDigit_digitChar (n % 10) (by omega), Nat.pow_succ]
      have := Nat.div_add_mod n 10
      rw [Nat.mul_add, Nat.mul_comm 10 (acc * _), Nat.mul_assoc]
      omega

theorem parseNat_digits (n : Nat) : parseNatAux (digits n) 0 = some n := by
  simpa using parse_digits n 0

/-- `%.4f` of the grid value k·10⁻⁴ (k ≥ 0): integer part, dot, exactly four fraction digits -/
def pad4 (m : Nat) : List Char :=
  [digitChar (m / 1000 % 10), digitChar (m / 100 % 10), digitChar (m / 10 % 10), digitChar (m % 10)]
def fmt4 (k : Nat) : List Char := digits (k / 10000) ++ '.' :: pad4 (k % 10000)

/-- split at the first '.' -/
def splitDot : List Char → List Char × Option (List Char)
  | [] => ([], none)
  | c :: cs => if c = '.' then ([], some cs) else
      let r := splitDot cs
      (c :: r.1, r.2)

/-- parse "I.FFFF" to the scaled integer -/
def parse4 (cs : List Char) : Option Nat :=
  match splitDot cs with
  | (ip, some fp) =>
    if fp.length = 4 then
      (parseNatAux ip 0).bind fun i => (parseNatAux fp 0).map fun f => i * 10000 + f
    else none
  | _ => none

theorem splitDot_append (a b : List Char) (h : ∀ c ∈ a, c ≠ '.') :
    splitDot (a ++ '.' :: b) = (a, some b) := by
  induction a with
  | nil => simp [splitDot]
  | cons c cs ih =>
    have hc : c ≠ '.' := h c (by simp)
    simp [splitDot, hc, ih (fun c hc => h c (by simp [hc]))]

theorem pad4_parse (m : Nat) (h : m < 10000) : parseNatAux (pad4 m) 0 = some m := by
  simp [pad4, parseNatAux, charDigit_digitChar _ (Nat.mod_lt _ (by decide : 10 > 0))]
  omega

theorem digits_no_dot (n : Nat) : ∀ c ∈ digits n, (c != '.') = true := by
  induction n using Nat.strongRecOn with
  | _ n ih =>
    intro c hc
    rw [digits] at hc
    have hd : ∀ d, d < 10 → (digitChar d != '.') = true := by
      intro d hd
      have : d = 0 ∨ d = 1 ∨ d = 2 ∨ d = 3 ∨ d = 4 ∨ d = 5 ∨ d = 6 ∨ d = 7 ∨ d = 8 ∨ d = 9 := by omega
      rcases this with h|h|h|h|h|h|h|h|h|h <;> subst h <;> decide
    split at hc
    · rename_i h; simp at hc; subst hc; exact hd n h
    · rename_i h
      simp at hc
      rcases hc with hc | hc
      · exact ih (n/10) (by omega) c hc
      · subst hc; exact hd _ (by omega)

theorem fmt4_roundtrip (k : Nat) : parse4 (fmt4 k) = some k := by
  unfold parse4 fmt4
  have h1 : ∀ c ∈ digits (k / 10000), c ≠ '.' := by
    intro c hc; have := digits_no_dot (k / 10000) c hc; simpa using this
  rw [splitDot_append _ _ h1]
  have hl : (pad4 (k % 10000)).length = 4 := rfl
  have := pad4_parse (k % 10000) (Nat.mod_lt _ (by decide))
  simp [hl, parseNat_digits, this]
  omega
#print axioms fmt4_roundtrip
