#!/bin/bash
# merge2.sh <dir> : cherry-pick worker commits one by one; auto-resolve "both added a line" conflicts in the registry files
d=$1
cd /verif
git fetch -q $d/verif HEAD || exit 1
base=$(git merge-base HEAD FETCH_HEAD)
for c in $(git rev-list --reverse $base..FETCH_HEAD); do
  if ! git cherry-pick -x $c >/dev/null 2>&1; then
    bad=0
    for f in $(git diff --name-only --diff-filter=U); do
      case $f in
        lean/Driver.lean|lean/SwcVerif/Model/AlgoRun.lean|lean/SwcVerif.lean)
          python3 - "$f" <<'PY'
import re,sys
p=sys.argv[1]; s=open(p).read()
s=re.sub(r"<<<<<<< HEAD\n(.*?)=======\n(.*?)>>>>>>> [^\n]*\n", lambda m: m.group(1)+m.group(2), s, flags=re.S)
open(p,'w').write(s)
PY
          git add $f;;
        evidence/*) git checkout --ours $f 2>/dev/null; git add $f;;
        *) echo "CONFLICT in $f (commit $c)"; bad=1;;
      esac
    done
    if [ $bad = 1 ]; then echo "STOPPED at $c; remaining: $(git rev-list --reverse $c..FETCH_HEAD | tr '\n' ' ')"; exit 2; fi
    git -c core.editor=true cherry-pick --continue >/dev/null 2>&1 || { git commit -q --allow-empty -C $c; }
  fi
done
echo "merged from $d"
