import numpy as np, io, warnings
warnings.simplefilter("ignore")
from swcgeom.core import Tree
t = Tree.from_swc(io.StringIO("# c1\n1 1 0.12345 0 0 1 -1\n2 3 1 0 0 1.5 1\n"))
print(t.comments)
s = t.to_swc(source=False); print(repr(s))
t2 = Tree.from_swc(io.StringIO(s)); print(t2.comments)
s2 = t2.to_swc(source=False); print(repr(s2))
t3 = Tree.from_swc(io.StringIO(s2)); print(t3.comments)
# float formatting extremes
t = Tree(3, x=np.array([1e30, -0.00004, 123456.789], dtype=np.float32), r=np.array([0.00005,2.5e-5,1],dtype=np.float32))
s = t.to_swc(source=False); print(s)
tb = Tree.from_swc(io.StringIO(s)); print(tb.x().tolist(), tb.r().tolist())
t = Tree(2, x=np.array([np.nan, np.inf], dtype=np.float32))
s = t.to_swc(source=False); print(s)
try:
    Tree.from_swc(io.StringIO(s))
except Exception as e: print("EXC", e, repr(e.__cause__))
