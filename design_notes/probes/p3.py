import numpy as np, io, warnings, traceback, os, tempfile
warnings.simplefilter("ignore")
from swcgeom.core import Tree, BranchTree, Population, Populations
from swcgeom.core import sort_tree, cut_tree, to_subtree, get_subtree, redirect_tree, cat_tree
from swcgeom.core.swc_utils import read_swc
from swcgeom.core import swc_utils
from swcgeom.transforms import *
def T(txt, **kw): return Tree.from_swc(io.StringIO(txt), **kw)
def show(t): 
    return list(zip(t.id().tolist(), t.type().tolist(), t.x().tolist(), t.pid().tolist()))
def attempt(name, f):
    try:
        r = f(); print(name, "->", r)
    except Exception as e:
        print(name, "-> EXC", type(e).__name__, e); traceback.print_exc(limit=3)
t = T("1 1 0 0 0 1 -1\n2 3 1 0 0 1 1\n3 3 2 0 0 1 2\n4 3 3 1 0 1 3\n5 4 3 -1 0 1 3\n6 2 -1 0 0 1 1\n7 2 -2 0 0 1 6\n")
attempt("sort", lambda: show(sort_tree(t)))
m=[]
attempt("get_subtree 2", lambda: (show(get_subtree(t, 2, out_mapping=m)), m))
attempt("to_subtree [2]", lambda: show(to_subtree(t, [2])))
attempt("redirect 3", lambda: show(redirect_tree(t, 3)))
attempt("redirect 3 nosort", lambda: show(redirect_tree(t, 3, sort=False)))
t2 = T("1 1 10 0 0 1 -1\n2 3 11 0 0 1 1\n3 3 12 0 0 1 2\n")
attempt("cat", lambda: show(cat_tree(t, t2, 4, 1)))
attempt("cat notrans", lambda: show(cat_tree(t, t2, 4, 1, translate=False)))
attempt("cat 0 0", lambda: show(cat_tree(t, t2)))
attempt("cutbytype 3", lambda: show(CutByType(3)(t)))
attempt("cutbytype 4", lambda: show(CutByType(4)(t)))
attempt("cutaxon", lambda: show(CutAxonTree()(t)))
attempt("cutdend", lambda: show(CutDendriteTree()(t)))
attempt("cutorder1", lambda: show(CutByFurcationOrder(1)(t)))
attempt("cutorder2", lambda: show(CutByFurcationOrder(2)(t)))
attempt("cutshort 1.5", lambda: show(CutShortTipBranch(1.5)(t)))
attempt("cutshort 5", lambda: show(CutShortTipBranch(5)(t)))
attempt("neurites", lambda: [show(x) for x in t.get_neurites()])
attempt("dendrites", lambda: [show(x) for x in t.get_dendrites()])
attempt("smoother", lambda: show(TreeSmoother(3)(t)))
attempt("resample", lambda: show(IsometricResampler(0.4)(t)))
attempt("normalizer", lambda: show(Normalizer()(t)))
attempt("radius", lambda: RadiusReseter(2.)(t).r().tolist())
attempt("longest", lambda: ToLongestPath()(t).x().tolist())
attempt("pathreverser", lambda: PathReverser()(t.get_paths()[0]).x().tolist())
print(show(t))
# aliasing
s = sort_tree(t); s.ndata['x'][0] = 99; print("alias sort", t.x()[0])
g = get_subtree(t, 0); g.ndata['x'][0] = 99; print("alias subtree", t.x()[0])
c = cat_tree(t, t2); c.ndata['x'][0] = 99; print("alias cat", t.x()[0], t2.x()[0])
r = redirect_tree(t, 3); r.ndata['x'][:] = 99; print("alias redirect", t.x()[0])
tr = Translate(0,0,0)(t); tr.ndata['r'][0] = 99; tr.ndata['type'][0]=77; print("alias translate", t.r()[0], t.type()[0])
rr = RadiusReseter(2.)(t); rr.ndata['x'][0] = 99; print("alias radius", t.x()[0])
cp = t.copy(); cp.ndata['x'][0] = 98; cp.comments.append("x"); print("alias copy", t.x()[0], t.comments)
cu = cut_tree(t); cu.ndata['x'][0]=97; print("alias cut none", t.x()[0])
