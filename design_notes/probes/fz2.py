import numpy as np, io, warnings, traceback, random, collections, itertools, math
warnings.simplefilter("ignore")
import pandas as pd
from swcgeom.core import Tree, BranchTree
from swcgeom.core import sort_tree, cut_tree, to_subtree, get_subtree, redirect_tree, cat_tree
from swcgeom.transforms import *
from swcgeom.core import swc_utils
from swcgeom.utils import DisjointSetUnion
from swcgeom.analysis import *
from swcgeom.analysis.lmeasure import LMeasure
exec(open('fz1.py').read().split("fails = collections.Counter()")[0])
fails = collections.Counter(); examples = {}
def fail(tag, info):
    fails[tag]+=1
    if tag not in examples: examples[tag]=info
rng = random.Random(2)
# --- checkers on all small tables
def reach_root(pids, i):
    seen=set(); v=i
    while v!=-1:
        if v in seen: return False
        seen.add(v); v=pids[v]
    return True
for n in range(1,6):
    for pids in itertools.product(range(-1,n), repeat=n):
        if any(pids[i]==i for i in range(n)): pass
        ids = np.arange(n); p = np.array(pids)
        cyc = not all(reach_root(pids,i) for i in range(n))
        try:
            got = swc_utils.has_cyclic((ids,p))
            if bool(got)!=cyc: fail("has_cyclic", (pids,got,cyc))
        except Exception as e: fail("has_cyclic EXC "+type(e).__name__, pids)
        # connectivity
        dsu = list(range(n))
        def f(x):
            while dsu[x]!=x: x=dsu[x]
            return x
        for i in range(n):
            if pids[i]!=-1: dsu[f(i)]=f(pids[i])
        conn = len(set(f(i) for i in range(n)))==1
        try:
            got = swc_utils.is_single_root(pd.DataFrame({'id':ids,'pid':p}))
            if bool(got)!=conn: fail("is_single_root", (pids,got,conn))
        except Exception as e: fail("is_single_root EXC "+type(e).__name__+str(e)[:40], pids)
# --- DSU histories
for it in range(500):
    n = rng.randrange(1,10); d = DisjointSetUnion(n); ref = list(range(n))
    for _ in range(rng.randrange(0,15)):
        a,b = rng.randrange(n), rng.randrange(n)
        if rng.random()<0.6:
            d.union_sets(a,b); ra, rb = ref[a], ref[b]; ref = [ra if x==rb else x for x in ref]
        else:
            if d.is_same_set(a,b)!=(ref[a]==ref[b]): fail("dsu", (n,))
# --- cut_tree callbacks, cutshort
for it in range(1500):
    n = rng.randrange(1, 12); t = rand_tree(rng, n, sorted_=rng.random()<0.5)
    base = (t.pid().tolist(), rows(t)); kd=kids(t)
    anc = {}
    for i in range(n):
        a=[]; v=i
        while v!=-1: a.append(v); v=int(t.pid()[v])
        anc[i]=a
    try:
        S = set(i for i in range(n) if rng.random()<0.25)
        called=[]
        c = cut_tree(t, enter=lambda nd,p: (called.append(int(nd.id)) or 0, int(nd.id) in S))
        keep=[i for i in range(n) if not any(a in S for a in anc[i])]
        if len(c)!=len(keep): fail("cut enter", (base,S))
        expcalled = set(i for i in range(n) if not any(a in S for a in anc[i][1:]))
        if set(called)!=expcalled or len(called)!=len(set(called)): fail("cut enter calls",(base,S,called))
        c = cut_tree(t, leave=lambda nd,ch: (0, int(nd.id) in S))
        if len(c)!=len(keep): fail("cut leave", (base,S))
        # cutshort: lattice distances not integer; use float oracle with margin
        thre = rng.choice([1,3,5,10,20,40])+0.123
        xyz = t.xyz().astype(np.float64)
        rem=set()
        for f_ in range(n):
            if len(kd[f_])>1:
                for ch in kd[f_]:
                    chain=[ch]; ok=True
                    while kd[chain[-1]]:
                        if len(kd[chain[-1]])>1: ok=False; break
                        chain.append(kd[chain[-1]][0])
                    if not ok: continue
                    pts=[f_]+chain
                    L=sum(np.linalg.norm(xyz[a]-xyz[b]) for a,b in zip(pts,pts[1:]))
                    if L<=thre: rem|=set(chain)
        c = CutShortTipBranch(thre)(t)
        if len(c)!=n-len(rem): fail("cutshort",(base,thre,len(c),sorted(rem)))
        # features
        if t.type()[0]==1:
            fe = extract_feature(t)
            L = sum(np.linalg.norm(xyz[i]-xyz[int(t.pid()[i])]) for i in range(1,n))
            if abs(fe.get("length")[0]-L)>1e-3*max(1,L): fail("length",(base,))
            rd = np.linalg.norm(xyz-xyz[0],axis=1)
            if not np.allclose(fe.get("node_radial_distance"), rd, rtol=1e-5, atol=1e-5): fail("radial",(base,))
            tips=[i for i in range(n) if not kd[i]]; fur=[i for i in range(n) if len(kd[i])>1]
            if fe.get("tip_count")[0]!=len(tips) or fe.get("furcation_count")[0]!=len(fur): fail("counts",(base,))
            pl = sorted(sum(np.linalg.norm(xyz[a]-xyz[b]) for a,b in zip(anc[tp],anc[tp][1:])) for tp in tips)
            if not np.allclose(sorted(fe.get("path_length")), pl, rtol=1e-4, atol=1e-4): fail("path_length",(base,))
            if len(kd[0])!=1 and n>1:
                bl = fe.get("branch_length")
                if abs(bl.sum()-L)>1e-3*max(1,L): fail("branch_length sum",(base,))
            if n>1:
                sh = Sholl(t)
                for r in [rng.uniform(0, rd.max()*1.1) for _ in range(3)]:
                    cnt = sum(1 for i in range(1,n) if min(rd[i],rd[int(t.pid()[i])])<=r<max(rd[i],rd[int(t.pid()[i])]))
                    if sh.intersect(r)!=cnt: fail("sholl",(base,r,sh.intersect(r),cnt))
            lm = LMeasure()
            for i in range(n):
                nd = t.node(i)
                pd_ = sum(np.linalg.norm(xyz[a]-xyz[b]) for a,b in zip(anc[i],anc[i][1:]))
                if abs(lm.path_distance(nd)-pd_)>1e-3: fail("lm path",(base,i))
                if lm.branch_order(nd)!=sum(1 for a in anc[i] if len(kd[a])>1): fail("lm order",(base,i))
                if lm.terminal_degree(nd)!=sum(1 for d_ in desc(t,i) if not kd[d_]): fail("lm termdeg",(base,i))
            if lm.n_stems(t)!=len(kd[0]) or lm.n_tips(t)!=len(tips) or lm.n_bifs(t)!=len(fur): fail("lm counts",(base,))
        if base!=(t.pid().tolist(), rows(t)): fail("INPUT MUTATED", base)
    except Exception as e:
        fail("EXC "+type(e).__name__+" "+str(e)[:60], (base, traceback.format_exc(limit=3)))
for k,v in fails.most_common(): print(v, k, "\n    ", str(examples[k])[:700])
print("done")
