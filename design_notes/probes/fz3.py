import numpy as np, io, warnings, traceback, random, collections, itertools, math, os, tempfile, shutil
warnings.simplefilter("ignore")
from swcgeom.core import Tree, BranchTree, Branch, Population, Populations
from swcgeom.core.population import ChainTrees, LazyLoadingTrees, NestTrees
import swcgeom.core.population as popmod
from swcgeom.transforms import *
from swcgeom.transforms.branch import BranchIsometricResampler
exec(open('fz1.py').read().split("fails = collections.Counter()")[0])
fails = collections.Counter(); examples = {}
def fail(tag, info):
    fails[tag]+=1
    if tag not in examples: examples[tag]=info
rng = random.Random(3)
from scipy.sparse.csgraph import minimum_spanning_tree
from scipy.spatial.distance import cdist
# MST
for it in range(300):
    n = rng.randrange(2, 25)
    pts = np.array([[rng.randrange(-50,50) for _ in range(3)] for _ in range(n)], dtype=np.float64)
    if len(set(map(tuple,pts)))<n: continue
    D = cdist(pts,pts); w = minimum_spanning_tree(D).sum()
    try:
        for srt in (True, False):
            t = PointsToMST(furcations=-1, sort=srt)(pts)
            if wf(t): fail("mst wf",(pts.tolist(),srt,wf(t)))
            if abs(t.length()-w)>1e-3: fail("mst weight",(pts.tolist(),t.length(),w))
            if sorted(map(tuple,t.xyz().tolist()))!=sorted(map(tuple,pts.tolist())): fail("mst points",(pts.tolist(),))
            if not srt and not np.allclose(t.xyz()[0], pts[0]): fail("mst root", ())
        for k in (1,2,3):
            for ex in (True,False):
                t = PointsToMST(furcations=k, exclude_soma=ex, sort=False)(pts)
                cc = collections.Counter(t.pid().tolist())
                for v,c in cc.items():
                    if v==-1: continue
                    if c>k and not (ex and v==0): fail("mst limit",(pts.tolist(),k,ex,v,c))
                if wf(sort_tree(t)) : fail("mst limit wf",())
        t = PointsToMST(furcations=-1)(pts[1:], soma=pts[0])
        if len(t)!=n or not np.allclose(t.xyz()[0], pts[0]): fail("mst soma",())
    except Exception as e:
        fail("MST EXC "+type(e).__name__+" "+str(e)[:60], (pts.tolist(), traceback.format_exc(limit=3)))
# resample / smooth on branches
for it in range(500):
    n = rng.randrange(2,9)
    xyzr = np.array([[rng.randrange(-9,9) for _ in range(3)]+[rng.randrange(1,5)] for _ in range(n)], dtype=np.float32)
    br = Branch.from_xyzr(xyzr)
    seg = np.linalg.norm(np.diff(xyzr[:,:3].astype(np.float64),axis=0),axis=1); L = seg.sum()
    try:
        m = rng.randrange(2,9)
        o = BranchLinearResampler(m)(br).xyzr()
        if len(o)!=m or not np.allclose(o[0],xyzr[0]) or not np.allclose(o[-1],xyzr[-1]): fail("linear endpoints",(xyzr.tolist(),m,o.tolist()))
        if L>0:
            d = rng.choice([0.5,1,2.5,7])
            o = BranchIsometricResampler(d)(br).xyzr().astype(np.float64)
            if not np.allclose(o[0],xyzr[0]) or not np.allclose(o[-1],xyzr[-1]): fail("iso endpoints",(xyzr.tolist(),d))
            steps = np.linalg.norm(np.diff(o[:,:3],axis=0),axis=1)
            if (steps>d+1e-4).any(): fail("iso step>d",(xyzr.tolist(),d,steps.tolist()))
            if steps.sum()>L+1e-4: fail("iso length grows",(xyzr.tolist(),d))
        w = rng.choice([1,2,3,5,7])
        o = BranchConvSmoother(w)(br).xyzr()
        if len(o)!=n or not np.allclose(o[0],xyzr[0]) or not np.allclose(o[-1],xyzr[-1]) or not np.allclose(o[:,3],xyzr[:,3]): fail("smooth",(xyzr.tolist(),w,o.tolist()))
    except Exception as e:
        fail("BR EXC "+type(e).__name__+" "+str(e)[:60], (xyzr.tolist(), traceback.format_exc(limit=3)))
# tree smoother / resampler
for it in range(300):
    n = rng.randrange(2, 14); t = rand_tree(rng, n)
    kd=kids(t)
    if len(kd[0])==1: continue
    try:
        s = TreeSmoother(rng.choice([3,5]))(t)
        if wf(s) or s.pid().tolist()!=t.pid().tolist() or not np.allclose(s.r(),t.r()): fail("treesmooth topo",())
        crit=[i for i in range(n) if i==0 or len(kd[i])!=1]
        if not np.allclose(s.xyz()[crit], t.xyz()[crit]): fail("treesmooth critical moved",(t.pid().tolist(),))
    except Exception as e:
        fail("TS EXC "+type(e).__name__+" "+str(e)[:60], (t.pid().tolist(), traceback.format_exc(limit=3)))
# population containers
d = tempfile.mkdtemp()
try:
    files=[]
    for i in range(7):
        fn=os.path.join(d,f"f{i}.swc"); open(fn,"w").write(f"1 1 {i} 0 0 1 -1\n2 3 {i}.5 0 0 1 1\n"); files.append(fn)
    reads=collections.Counter()
    orig = Tree.from_swc.__func__
    def logged(cls, f, **kw):
        reads[f]+=1; return orig(cls, f, **kw)
    Tree.from_swc = classmethod(logged)
    for it in range(300):
        reads.clear()
        sizes=[rng.randrange(0,4) for _ in range(rng.randrange(1,4))]
        members=[]; flat=[]
        for sz in sizes:
            fs=[rng.choice(files) for _ in range(sz)]
            members.append(LazyLoadingTrees(fs)); flat+=fs
        ch = ChainTrees(members)
        if len(ch)!=len(flat): fail("chain len",(sizes,len(ch)))
        for _ in range(6):
            if not flat: break
            k = rng.randrange(-len(flat), len(flat))
            got = ch[k].source
            if got!=os.path.abspath(flat[k]): fail("chain idx",(sizes,k))
        try:
            ch[len(flat)]; fail("chain oob no error",())
        except IndexError: pass
        lz = LazyLoadingTrees(files); reads.clear()
        p = Population(lz)
        probe = dict(reads)
        ops=[rng.randrange(-7,7) for _ in range(10)]
        for k in ops: 
            if p[k].source!=os.path.abspath(files[k]): fail("pop idx",(k,))
        sl = slice(rng.randrange(-8,8), rng.randrange(-8,8), rng.choice([None,1,2,-1]))
        sub = p[sl]; expf = files[sl]
        if len(sub)!=len(expf) or any(sub[i].source!=os.path.abspath(expf[i]) for i in range(len(expf))): fail("pop slice",(sl,))
        if any(c>1 for c in reads.values()): fail("read twice", dict(reads))
        req = set(files[k] for k in ops)|set(expf)|{files[0]}
        if not set(reads)<=req: fail("read unrequested",(set(reads)-req))
finally:
    Tree.from_swc = classmethod(orig); shutil.rmtree(d)
for k,v in fails.most_common(): print(v, k, "\n    ", str(examples[k])[:700])
print("done")
