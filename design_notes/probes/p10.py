import numpy as np, warnings, traceback
warnings.simplefilter("ignore")
from swcgeom.core import Branch
from swcgeom.transforms.branch import BranchIsometricResampler
def attempt(name, f):
    try:
        r = f(); print(name, "->", r)
    except Exception as e:
        print(name, "-> EXC", type(e).__name__, e)
br = Branch.from_xyzr(np.array([[0,0,0,1],[1,0,0,2],[1,0,0,2],[3,0,0,4.]],dtype=np.float32))
attempt("iso", lambda: BranchIsometricResampler(0.7)(br).xyzr().tolist())
attempt("iso exact", lambda: BranchIsometricResampler(0.75)(br).xyzr().tolist())
attempt("iso big", lambda: BranchIsometricResampler(10)(br).xyzr().tolist())
attempt("iso noadjust", lambda: BranchIsometricResampler(0.7, adjust_last_gap=False)(br).xyzr().tolist())
attempt("iso zero len", lambda: BranchIsometricResampler(0.7)(Branch.from_xyzr(np.array([[1,1,1,1],[1,1,1,2.]],dtype=np.float32))).xyzr().tolist())
