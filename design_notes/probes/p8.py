import numpy as np, io, warnings, traceback, os, tempfile, shutil
warnings.simplefilter("ignore")
from swcgeom.images.io import save_tiff, read_imgs
from swcgeom.core import Tree
from swcgeom.transforms import ToImageStack
def attempt(name, f):
    try:
        r = f(); print(name, "->", r)
    except Exception as e:
        print(name, "-> EXC", type(e).__name__, e); traceback.print_exc(limit=4)
d = tempfile.mkdtemp()
rng = np.random.default_rng(0)
for shape in [(4,5,6,1),(4,5,6,3),(1,5,6,1),(4,1,6,1),(4,5,1,1),(1,1,1,1),(4,5,6),(2,3,3,3),(3,3,4,3),(4,5,3,1),(3,5,6,1),(4,3,6,1),(4,4,3,1),(3,4,4,1)]:
    for dt in (np.uint8, np.float32, np.uint16):
        a = (rng.uniform(0,1,size=shape)).astype(np.float32)
        if np.issubdtype(dt, np.integer): a = (a*np.iinfo(dt).max).astype(dt)
        fn = os.path.join(d, "x.tif")
        try:
            save_tiff(a, fn)
            b = read_imgs(fn, dtype=dt).get_full()
            exp = a if a.ndim==4 else a[...,None]
            ok = b.shape==exp.shape and np.array_equal(b, exp)
            if not ok: print("TIFF", shape, dt.__name__, "shape", b.shape, "equal", ok)
        except Exception as e:
            print("TIFF", shape, dt.__name__, "EXC", type(e).__name__, e)
# dtype conversions
a = rng.uniform(0,1,size=(3,4,5,1)).astype(np.float32)
fn = os.path.join(d, "y.tif")
save_tiff(a, fn, dtype=np.uint8)
attempt("f32->u8 save, read u8", lambda: np.abs(read_imgs(fn, dtype=np.uint8).get_full().astype(float) - np.floor(a*255)).max())
attempt("f32->u8 save, read f32", lambda: np.abs(read_imgs(fn, dtype=np.float32).get_full() - np.floor(a*255)/255).max())
save_tiff(a, fn)
attempt("f32 save, read u8", lambda: np.abs(read_imgs(fn, dtype=np.uint8).get_full().astype(float) - np.floor(a*255)).max())
u = (a*255).astype(np.uint8)
save_tiff(u, fn, dtype=np.float32)
attempt("u8->f32 save, read f32", lambda: np.abs(read_imgs(fn, dtype=np.float32).get_full() - u/255).max())
# npy, nrrd
np.save(os.path.join(d,"z.npy"), a)
attempt("npy", lambda: np.array_equal(read_imgs(os.path.join(d,"z.npy")).get_full(), a))
import nrrd
nrrd.write(os.path.join(d,"z.nrrd"), a)
attempt("nrrd", lambda: np.array_equal(read_imgs(os.path.join(d,"z.nrrd")).get_full(), a))
# rasterise
t = Tree.from_swc(io.StringIO("1 1 0 0 0 1 -1\n2 3 4 0 0 1 1\n3 3 4 3 0 0.5 2\n"))
attempt("raster shape", lambda: ToImageStack(1)(t).shape)
attempt("raster shape .5", lambda: ToImageStack(0.5)(t).shape)
img = ToImageStack(1)(t)
print(img.dtype, np.unique(img))
for z in range(img.shape[0]): print(img[z].T[::-1])
shutil.rmtree(d)
