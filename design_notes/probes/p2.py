import numpy as np, io, warnings, traceback, os, tempfile
warnings.simplefilter("ignore")
from swcgeom.core import Tree, BranchTree, Population, Populations
from swcgeom.core import sort_tree, cut_tree, to_subtree, get_subtree, redirect_tree, cat_tree
from swcgeom.core.swc_utils import read_swc
from swcgeom.core import swc_utils
from swcgeom.transforms import *
def T(txt, **kw): return Tree.from_swc(io.StringIO(txt), **kw)
def show(t): 
    return list(zip(t.id().tolist(), t.type().tolist(), t.x().tolist(), t.pid().tolist()))
def attempt(name, f):
    try:
        r = f(); print(name, "->", r)
    except Exception as e:
        print(name, "-> EXC", type(e).__name__, e)
t3 = T("1 1 0 0 0 1 -1\n2 3 1 0 0 1 1\n3 3 2 0 0 1 2\n4 3 -1 0 0 1 1\n5 3 -2 0 0 1 4\n")
br = t3.get_branches()[1]
attempt("branch ids", lambda: br.origin_id().tolist())
attempt("branch segs", lambda: br.get_segments().get_ndata('id').tolist())
attempt("branch segs x", lambda: br.get_segments().x().tolist())
attempt("branch detach segs x", lambda: br.detach().get_segments().x().tolist())
attempt("node.branch", lambda: t3.node(4).branch().origin_id().tolist())
attempt("node.branch root", lambda: t3.node(0).branch().origin_id().tolist())
# multi roots
m = "1 1 0 0 0 1 -1\n2 3 1 0 0 1 1\n3 3 5 0 0 1 -1\n4 3 6 0 0 1 3\n"
for fix in (False, 'somas', 'nearest'):
    attempt(f"multiroot fix={fix}", lambda: read_swc(io.StringIO(m), fix_roots=fix)[0].values.tolist())
m0 = "0 1 0 0 0 1 -1\n1 3 1 0 0 1 0\n2 3 5 0 0 1 -1\n3 3 6 0 0 1 2\n"
attempt("multiroot base0", lambda: read_swc(io.StringIO(m0))[0].values.tolist())
attempt("Tree multiroot", lambda: show(T(m)))
# round trip
t = T("1 1 0.12345 0 0 1 -1\n2 3 1 0 0 1.5 1\n")
t.comments = ["hello", "  lead", "", "   "]
s = t.to_swc()
print(repr(s))
t_back = T(s); print(t_back.comments, show(t_back))
s = t.to_swc(source=False, id_offset=0); print(repr(s))
attempt("rt offset0", lambda: show(T(s)))
s = t.to_swc(source=False, id_offset=7); print(repr(s))
attempt("rt offset7", lambda: show(T(s)))
attempt("bytes", lambda: show(Tree.from_swc(io.BytesIO(t.to_swc().encode()))))
# sort
perm = "3 3 2 0 0 1 2\n2 3 1 0 0 1 10\n10 1 0 0 0 1 -1\n7 3 9 0 0 1 10\n"
attempt("sort read", lambda: read_swc(io.StringIO(perm), sort_nodes=True)[0].values.tolist())
attempt("nosort read", lambda: read_swc(io.StringIO(perm))[0].values.tolist())
# cyc
import pandas as pd
attempt("has_cyclic", lambda: swc_utils.has_cyclic((np.array([0,1,2]), np.array([-1,2,1]))))
attempt("has_cyclic ids1", lambda: swc_utils.has_cyclic((np.array([1,2,3]), np.array([-1,1,2]))))
attempt("is_single_root cyc", lambda: swc_utils.is_single_root(pd.DataFrame({'id':[0,1,2],'pid':[-1,2,1]})))
attempt("is_sorted", lambda: swc_utils.is_sorted((np.array([0,1,2]), np.array([-1,2,0]))))
attempt("is_bifurcate", lambda: swc_utils.is_bifurcate((np.array([0,1,2,3]), np.array([-1,0,0,0]))))
attempt("is_bifurcate nr", lambda: swc_utils.is_bifurcate((np.array([0,1,2,3,4]), np.array([-1,0,1,1,1]))))
attempt("is_bifurcate nr f", lambda: swc_utils.is_bifurcate((np.array([0,1,2,3,4]), np.array([-1,0,1,1,1])), exclude_root=False))
