import numpy as np, io, warnings, traceback
warnings.simplefilter("ignore")
from swcgeom.transforms.neurolucida_asc import *
def show(t): 
    return list(zip(t.id().tolist(), t.type().tolist(), t.x().tolist(), t.pid().tolist()))
def attempt(name, s):
    try:
        r = show(NeurolucidaAscToSwc.from_stream(io.StringIO(s))); print(name, "->", r)
    except Exception as e:
        print(name, "-> EXC", type(e).__name__, e, "|", repr(e.__cause__))
attempt("nested", "( (Axon) (1 0 0 1) ( (2 0 0 1) ( (3 0 0 1) | (4 0 0 1) ) | (5 0 0 1) ) )")
attempt("nested2", "( (Axon) (1 0 0 1) ( (2 0 0 1) ( (3 0 0 1) | (4 0 0 1) ) (4.5 0 0 1) | (5 0 0 1) ) )")
attempt("after split", "( (Axon) (1 0 0 1) ( (2 0 0 1) | (3 0 0 1) ) (6 0 0 1) )")
attempt("three alts", "( (Dendrite) (1 0 0 1) ( (2 0 0 1) | (3 0 0 1) | (4 0 0 1) (5 0 0 1) ) )")
attempt("trunc1", "( (Axon) (1 0 0 1) ( (2 0 0 1) | (3 0 0 1) ")
attempt("trunc2", "( (Axon) (1 0 0 1) (2 0 0 1)")
attempt("trunc3", "( (Axon) (1 0 0 1) (2 0 0")
attempt("trunc4", "( (Axon) (1 0 0 1) (2 0 0 1")
attempt("trunc5", "( (Axon) (1 0 0 1) ( (2 0 0 1) | ")
attempt("trunc6", "( (Axon) (1 0 0 1) ( (2 0 0 1) ")
attempt("badpoint", "( (Axon) (1 0 0 1) (2 0 x 1) (3 0 0 1) )")
attempt("badpoint3", "( (Axon) (1 0 0 1) (2 0 1) (3 0 0 1) )")
attempt("badpoint5", "( (Axon) (1 0 0 1) (2 0 1 1 1) (3 0 0 1) )")
attempt("color", "( (Color Red) (Axon) (1 0 0 1) (Color Blue) (2 0 0 1) ( (3 0 0 1) (Color Green) | (4 0 0 1) ) )")
attempt("color inside first", "( (Axon) (Color Red) (1 0 0 1) (2 0 0 1) )")
attempt("comment", "( (Axon) ; c1\n (1 0 0 1) ; c2\n (2 0 0 1) ;c3\n ( (3 0 0 1) ; c4\n | ; c5\n (4 0 0 1) ) )")
attempt("comment top", "; top\n( (Axon)\n (1 0 0 1) (2 0 0 1) )")
attempt("empty alt", "( (Axon) (1 0 0 1) ( | (2 0 0 1) ) )")
attempt("1e3", "( (Axon) (1e1 0 0 1) (.5 0 0 1) (5. 0 0 1))")
attempt("single", "( (Axon) (1 0 0 1) )")
attempt("none", "( (Axon) )")
attempt("lower", "( (axon) (1 0 0 1) )")
attempt("two trees", "( (Axon) (1 0 0 1) (2 0 0 1) ) ( (Dendrite) (3 0 0 1) )")
