import numpy as np, io, warnings, traceback, os, tempfile, shutil
warnings.simplefilter("ignore")
from swcgeom.core import Tree, BranchTree
from swcgeom.core.swc_utils import traverse
from swcgeom.transforms import *
from swcgeom.analysis import *
from swcgeom.analysis.lmeasure import LMeasure
from swcgeom.utils import *
def T(txt, **kw): return Tree.from_swc(io.StringIO(txt), **kw)
def attempt(name, f):
    try:
        r = f(); print(name, "->", r)
    except Exception as e:
        print(name, "-> EXC", type(e).__name__, e); traceback.print_exc(limit=4)
t = T("1 1 0 0 0 1 -1\n2 3 1 0 0 1 1\n3 3 2 0 0 1 2\n4 3 3 1 0 1 3\n5 4 3 -1 0 1 3\n6 2 -1 0 0 1 1\n7 2 -2 0 0 1 6\n")
fe = extract_feature(t)
for f in ["length","node_count","node_radial_distance","node_branch_order","furcation_count","furcation_radial_distance","tip_count","tip_radial_distance","branch_length","branch_tortuosity","path_length","path_tortuosity","sholl","volume"]:
    attempt(f, lambda: fe.get(f).tolist())
attempt("sholl steps", lambda: Sholl(t).get(steps=[0.5,1.0,1.5,2.0,2.5,3.0,3.2]).tolist())
attempt("sholl rs", lambda: Sholl(t).rs.tolist())
lm = LMeasure()
for f in ["n_stems","n_bifs","n_branch","n_tips"]:
    attempt(f, lambda: getattr(lm,f)(t))
for i in range(7):
    attempt(f"node {i}", lambda: (lm.euc_distance(t.node(i)), lm.path_distance(t.node(i)), lm.branch_order(t.node(i)), lm.terminal_degree(t.node(i))))
attempt("pa 2", lambda: lm.partition_asymmetry(t.node(2)))
attempt("pa 0", lambda: lm.partition_asymmetry(t.node(0)))
attempt("ampl local", lambda: lm.bif_ampl_local(t.node(2)))
attempt("ampl remote", lambda: lm.bif_ampl_remote(t.node(0)))
attempt("tilt local", lambda: lm.bif_tilt_local(t.node(2)))
attempt("tilt remote", lambda: lm.bif_tilt_remote(t.node(2)))
br = t.get_branches()
attempt("frag", lambda: [lm.fragmentation(b) for b in br])
attempt("contraction", lambda: [lm.contraction(b) for b in br])
attempt("pathlen", lambda: [lm.branch_pathlength(b) for b in br])
# deep traversal
n = 100000
ids = np.arange(n); pids = np.arange(-1, n-1)
cnt=[0]
attempt("deep", lambda: traverse((ids,pids), enter=lambda i,p: (cnt.__setitem__(0,cnt[0]+1), 0)[1], leave=lambda i,c: 1+sum(c)))
big = Tree(n, id=ids, pid=pids, x=np.arange(n,dtype=np.float32))
attempt("deep get_subtree", lambda: len(BranchTree.from_tree(big)) if False else len(big.node(5).subtree()))
from swcgeom.utils import DisjointSetUnion
def deep_dsu():
    d = DisjointSetUnion(n)
    for i in range(n-1): d.union_sets(i+1, i)
    return d.is_same_set(0, n-1)
attempt("deep dsu", deep_dsu)
def deep_dsu2():
    d = DisjointSetUnion(n)
    d.element_parent = [max(i-1,0) for i in range(n)]
    return d.find_parent(n-1)
attempt("deep dsu chain find", deep_dsu2)
