import numpy as np, io, warnings, traceback, os, tempfile, shutil
warnings.simplefilter("ignore")
from swcgeom.core import Tree, BranchTree, Population, Populations
from swcgeom.core.population import ChainTrees, LazyLoadingTrees
from swcgeom.transforms import *
from swcgeom.analysis import *
from swcgeom.analysis.lmeasure import LMeasure
def T(txt, **kw): return Tree.from_swc(io.StringIO(txt), **kw)
def show(t): 
    return list(zip(t.id().tolist(), t.type().tolist(), t.x().tolist(), t.pid().tolist()))
def attempt(name, f):
    try:
        r = f(); print(name, "->", r)
    except Exception as e:
        print(name, "-> EXC", type(e).__name__, e); traceback.print_exc(limit=4)
# MST
rng = np.random.default_rng(0)
pts = rng.uniform(0, 10, size=(12,3))
a = PointsToCuntzMST(bf=0, furcations=-1)(pts)
b = PointsToCuntzMST(bf=1, furcations=-1)(pts)
print("mst bf0 len", a.length(), "bf1 len", b.length(), "same topo", show(a)==show(b))
from scipy.sparse.csgraph import minimum_spanning_tree
from scipy.spatial.distance import cdist
print("scipy mst", minimum_spanning_tree(cdist(pts,pts)).sum())
c = PointsToMST(furcations=2)(pts); 
print("k=2 max children", max(np.count_nonzero(c.pid()==i) for i in range(len(c))))
c = PointsToMST(furcations=1, exclude_soma=False)(pts); 
print("k=1 max children", max(np.count_nonzero(c.pid()==i) for i in range(len(c))))
attempt("mst soma", lambda: show(PointsToMST(furcations=-1)(pts[:4], soma=[0,0,0])))
# population
d = tempfile.mkdtemp()
for sub in ("a","b"):
    os.makedirs(os.path.join(d,sub,"n"))
    for i in range(3):
        with open(os.path.join(d,sub,f"t{i}.swc"),"w") as f: f.write(f"1 1 {i} 0 0 1 -1\n2 3 {i+1} 0 0 1 1\n")
    with open(os.path.join(d,sub,"n",f"u.swc"),"w") as f: f.write(f"1 1 9 0 0 1 -1\n")
with open(os.path.join(d,"b","only_b.swc"),"w") as f: f.write(f"1 1 7 0 0 1 -1\n")
pa = Population.from_swc(os.path.join(d,"a"))
print("len", len(pa), [t.source[-8:] for t in pa], "loaded", [x is not None for x in pa.trees.trees])
pa = Population.from_swc(os.path.join(d,"a"))
print("after construct loaded", [x is not None for x in pa.trees.trees])
attempt("pa[-1]", lambda: pa[-1].source[-8:])
attempt("pa[1:3]", lambda: [pa[1:3][i].source[-8:] for i in range(2)])
pp = Populations.from_swc([os.path.join(d,"a"), os.path.join(d,"b")])
print("pops len", len(pp), [[t.source[-10:] for t in row] for row in pp])
attempt("to_population", lambda: len(pp.to_population()))
attempt("chain", lambda: [t.x()[0] for t in ChainTrees([pa.trees, pp.populations[1].trees])])
attempt("chain list len", lambda: len(ChainTrees([pa.trees, pp.populations[1].trees])))
attempt("map", lambda: list(pa.map(len)))
attempt("poptransform", lambda: len(PopulationTransform(Translate(1,0,0))(pa)))
os.makedirs(os.path.join(d,"e"))
attempt("empty", lambda: len(Population.from_swc(os.path.join(d,"e"))))
shutil.rmtree(d)
