import numpy as np, io, warnings, traceback
warnings.simplefilter("ignore")
from swcgeom.core import Tree, BranchTree, Population, Populations
from swcgeom.core import sort_tree, cut_tree, to_subtree, get_subtree, redirect_tree, cat_tree
from swcgeom.core.swc_utils import read_swc
from swcgeom.transforms import *

def T(txt, **kw): return Tree.from_swc(io.StringIO(txt), **kw)
def show(t): 
    return list(zip(t.id().tolist(), t.type().tolist(), t.x().tolist(), t.pid().tolist()))
def attempt(name, f):
    try:
        r = f(); print(name, "->", r)
    except Exception as e:
        print(name, "-> EXC", type(e).__name__, e)

# chain root with one child then furcation
t = T("1 1 0 0 0 1 -1\n2 3 1 0 0 1 1\n3 3 2 0 0 1 2\n4 3 3 1 0 1 3\n5 3 3 -1 0 1 3\n")
attempt("branches stem", lambda: [b.origin_id().tolist() for b in t.get_branches()])
t2 = T("1 1 0 0 0 1 -1\n2 3 1 0 0 1 1\n3 3 2 0 0 1 2\n")
attempt("branches chain", lambda: [b.origin_id().tolist() for b in t2.get_branches()])
t3 = T("1 1 0 0 0 1 -1\n2 3 1 0 0 1 1\n3 3 2 0 0 1 2\n4 3 -1 0 0 1 1\n5 3 -2 0 0 1 4\n")
attempt("branches 2stems", lambda: [b.origin_id().tolist() for b in t3.get_branches()])
attempt("paths", lambda: [p.origin_id().tolist() for p in t.get_paths()])
attempt("tips", lambda: [n.id for n in t.get_tips()])
attempt("furc", lambda: [n.id for n in t.get_furcations()])
attempt("branchtree", lambda: show(BranchTree.from_tree(t)))
attempt("branchtree chain", lambda: show(BranchTree.from_tree(t2)))
# branch segments
br = t3.get_branches()[0]
attempt("branch ids", lambda: br.origin_id().tolist())
attempt("branch segs", lambda: br.get_segments().get_ndata('id').tolist())
attempt("branch segs x", lambda: br.get_segments().x().tolist())
attempt("tree segs", lambda: t3.get_segments().get_ndata('id').tolist())
# negative index / slice
attempt("t[-1]", lambda: t[-1].id)
attempt("t[1:3]", lambda: [n.id for n in t[1:3]])
attempt("path[-1]", lambda: t.get_paths()[0][-1].id)
# scale center root
t4 = T("1 1 5 5 5 1 -1\n2 3 6 5 5 1 1\n")
attempt("scale root", lambda: Scale(2,2,2)(t4).xyz().tolist())
attempt("scale origin", lambda: Scale(2,2,2,center='origin')(t4).xyz().tolist())
attempt("rotz root", lambda: RotateZ(np.pi/2)(t4).xyz().round(4).tolist())
attempt("rotate", lambda: Rotate(np.array([0,0,1.]), np.pi/2)(t4).xyz().round(4).tolist())
attempt("translate", lambda: Translate(1,2,3)(t4).xyz().tolist())
attempt("translateorigin", lambda: TranslateOrigin()(t4).xyz().tolist())
