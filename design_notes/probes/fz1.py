import numpy as np, io, warnings, traceback, random, collections
warnings.simplefilter("ignore")
from swcgeom.core import Tree, BranchTree
from swcgeom.core import sort_tree, cut_tree, to_subtree, get_subtree, redirect_tree, cat_tree
from swcgeom.transforms import *
from swcgeom.core import swc_utils

def rand_tree(rng, n, stem_ok=True, sorted_=True):
    pids = [-1] + [rng.randrange(0, i) for i in range(1, n)]
    if not sorted_ and n > 2:
        perm = list(range(1, n)); rng.shuffle(perm); perm = [0] + perm  # new label of old i
        newp = [0]*n
        for old in range(n):
            newp[perm[old]] = -1 if pids[old] == -1 else perm[pids[old]]
        pids = newp
    xs = [rng.randrange(-20, 20) for _ in range(n)]
    ys = [rng.randrange(-20, 20) for _ in range(n)]
    zs = [rng.randrange(-20, 20) for _ in range(n)]
    ty = [rng.randrange(0, 5) for _ in range(n)]; ty[0] = 1
    t = Tree(n, id=np.arange(n), pid=np.array(pids), x=np.array(xs, dtype=np.float32), y=np.array(ys, dtype=np.float32), z=np.array(zs, dtype=np.float32), type=np.array(ty), r=np.array([1+ (i%3) for i in range(n)], dtype=np.float32))
    return t
def kids(t):
    d = collections.defaultdict(list)
    for i,p in zip(t.id().tolist(), t.pid().tolist()): d[p].append(i)
    return d
def desc(t, n):
    d = kids(t); out=[]; st=[n]
    while st:
        v = st.pop(); out.append(v); st.extend(d[v])
    return set(out)
def wf(t):
    n = len(t); ids=t.id().tolist(); p=t.pid().tolist()
    if ids != list(range(n)): return "ids"
    if n==0: return None
    if p[0]!=-1: return "root"
    for i in range(1,n):
        if not (0<=p[i]<n): return "pid range"
    for i in range(n):
        v=i; c=0
        while v!=0:
            v=p[v]; c+=1
            if c>n: return "cycle"
    return None
def rows(t): return [(int(a),float(b),float(c),float(d),float(e)) for a,b,c,d,e in zip(t.type(), t.x(), t.y(), t.z(), t.r())]
def uedges(t): return sorted(tuple(sorted((i,p))) for i,p in zip(t.id().tolist(), t.pid().tolist()) if p!=-1)
fails = collections.Counter(); examples = {}
def fail(tag, info):
    fails[tag]+=1
    if tag not in examples: examples[tag]=info
rng = random.Random(1)
for it in range(3000):
    n = rng.randrange(1, 12); t = rand_tree(rng, n, sorted_=rng.random()<0.5)
    base = (t.pid().tolist(), rows(t))
    try:
        # subtree
        k = rng.randrange(n); m=[]
        s = get_subtree(t, k, out_mapping=m)
        if wf(s): fail("subtree wf", (base, k, wf(s)))
        if set(int(x) for x in m) != desc(t,k): fail("subtree set", (base,k,m))
        for new,old in enumerate(m):
            if rows(s)[new]!=rows(t)[old]: fail("subtree attrs", (base,k))
            if new>0 and int(m[s.pid()[new]])!=t.pid()[old]: fail("subtree parent", (base,k))
        # to_subtree
        rem = [i for i in range(n) if rng.random()<0.2]
        m=[]; s = to_subtree(t, rem, out_mapping=m)
        exp = [i for i in range(n) if not any((a in rem) for a in ([i]+anc)) ] if False else None
        anc = {}
        for i in range(n):
            a=[]; v=i
            while v!=-1: a.append(v); v=t.pid()[v]
            anc[i]=a
        exp = [i for i in range(n) if not any(a in rem for a in anc[i])]
        if [int(x) for x in m]!=exp: fail("to_subtree set", (base, rem, m, exp))
        if len(s)>0 and wf(s): fail("to_subtree wf", (base, rem, wf(s)))
        # sort
        s = sort_tree(t)
        if wf(s): fail("sort wf", base)
        if any(s.pid()[i]>=i for i in range(1,n)): fail("sort sorted", base)
        if sorted(rows(s))!=sorted(rows(t)): fail("sort attrs", base)
        # redirect
        k = rng.randrange(n)
        for srt in (True, False):
            r = redirect_tree(t, k, sort=srt)
            if srt and wf(r): fail("redirect wf", (base,k,wf(r)))
            if not srt:
                if r.pid()[k]!=-1 or list(r.pid()).count(-1)!=1: fail("redirect root", (base,k))
                if uedges(r)!=uedges(t): fail("redirect edges", (base,k))
                rt = rows(t); rr = rows(r)
                exp = list(rt); a,b = rt[0], rt[k]
                exp[0] = (b[0],)+a[1:]; exp[k] = (a[0],)+b[1:]
                if rr!=exp: fail("redirect attrs", (base,k,rr,exp))
        # branches/paths/tips/furc (only when root has != 1 child to avoid known D08)
        kd = kids(t)
        tips = sorted(i for i in range(n) if not kd[i]); fur = sorted(i for i in range(n) if len(kd[i])>1)
        if sorted(int(x.id) for x in t.get_tips())!=tips: fail("tips", base)
        if sorted(int(x.id) for x in t.get_furcations())!=fur: fail("furc", base)
        paths = [p.origin_id().tolist() for p in t.get_paths()]
        if sorted(p[-1] for p in paths)!=tips or any(p[0]!=0 for p in paths): fail("paths ends", base)
        for p in paths:
            if any(t.pid()[b]!=a for a,b in zip(p,p[1:])): fail("paths chain", base)
        brs = [b.origin_id().tolist() for b in t.get_branches()]
        edges = sorted((b,a) for br in brs for a,b in zip(br,br[1:]))
        alledges = sorted((i,int(t.pid()[i])) for i in range(1,n))
        if len(kd[0])!=1:
            if edges!=alledges: fail("branches partition", (base, brs))
            for br in brs:
                if not (br[0]==0 or br[0] in fur) or not (br[-1] in fur or br[-1] in tips) or any(len(kd[v])!=1 for v in br[1:-1]): fail("branch shape",(base,br))
            bt = BranchTree.from_tree(t)
            if wf(bt): fail("branchtree wf", base)
            if len(bt)!=len(set([0]+fur+tips)): fail("branchtree nodes", (base, len(bt)))
        # cut by type
        ty = rng.randrange(0,5)
        c = CutByType(ty)(t)
        keep = [i for i in range(n) if any(t.type()[d]==ty for d in desc(t,i))]
        if len(c)!=len(keep): fail("cutbytype", (base,ty,len(c),keep))
        elif [rows(c)[i] for i in range(len(c))]!=[rows(t)[i] for i in keep]: fail("cutbytype attrs",(base,ty))
        # cut by order
        mo = rng.randrange(0,4)
        c = CutByFurcationOrder(mo)(t)
        lev={}
        for i in sorted(range(n), key=lambda i: len(anc[i])):
            p = t.pid()[i]
            lev[i] = 0 if p==-1 else lev[p] + (1 if len(kd[i])>1 else 0)
        keep=[i for i in range(n) if all(lev[a]<mo for a in anc[i])]
        if len(c)!=len(keep): fail("cutorder",(base,mo,len(c),keep))
        # cat
        n2 = rng.randrange(1,8); t2 = rand_tree(rng, n2, sorted_=rng.random()<0.5)
        a = rng.randrange(n); b = rng.randrange(n2); tr = rng.random()<0.5
        c = cat_tree(t, t2, a, b, translate=tr)
        if wf(c): fail("cat wf", (base,(t2.pid().tolist()),a,b,tr,wf(c)))
        pa = np.array(rows(t)[a][1:4]); pb = np.array(rows(t2)[b][1:4])
        coin = tr or np.linalg.norm(pa-pb)<1e-5
        if len(c)!= n+n2-(1 if coin else 0): fail("cat count",(base,t2.pid().tolist(),a,b,tr,len(c)))
        # multiset of positions
        off = (pa-pb) if tr else np.zeros(3)
        exp = [r[1:4] for r in rows(t)] + [tuple((np.array(r[1:4])+off).tolist()) for i,r in enumerate(rows(t2)) if not (coin and i==b)]
        got = [r[1:4] for r in rows(c)]
        if sorted(exp)!=sorted(got): fail("cat positions",(base,t2.pid().tolist(),a,b,tr))
        if base!=(t.pid().tolist(), rows(t)): fail("INPUT MUTATED", base)
    except Exception as e:
        fail("EXC "+type(e).__name__+" "+str(e)[:60], (base, traceback.format_exc(limit=3)))
for k,v in fails.most_common(): print(v, k, "\n    ", str(examples[k])[:600])
print("done")
