import numpy as np, io, warnings, traceback
warnings.simplefilter("ignore")
from swcgeom.core import Tree
from swcgeom.analysis import get_volume
from swcgeom.utils import VolSphere, VolFrustumCone
from scipy import integrate
def T(txt, **kw): return Tree.from_swc(io.StringIO(txt), **kw)
def true_sf(r1, r2, h, n=200001):
    # sphere radius r1 at z=0, frustum from z=0 (r1) to z=h (r2): intersection volume via disc method
    z = np.linspace(0, min(h, r1), n)
    rho_s = np.sqrt(np.maximum(r1*r1 - z*z, 0))
    rho_f = r1 + (r2-r1)*z/h
    rho = np.minimum(rho_s, rho_f)
    return np.pi*integrate.simpson(rho**2, x=z)
rng = np.random.default_rng(1)
bad=0
for k in range(300):
    r1 = rng.uniform(0.2,3); r2 = rng.uniform(0.05,3); h = rng.uniform(0.05,5)
    d = rng.normal(size=3); d/=np.linalg.norm(d)
    c = rng.uniform(-3,3,3)
    s = VolSphere(c, r1); f = VolFrustumCone(c, r1, c+h*d, r2)
    v = s.intersect(f).get_volume(); tv = true_sf(r1,r2,h)
    s2 = VolSphere(c+h*d, r2)
    v2 = s2.intersect(f).get_volume(); tv2 = true_sf(r2,r1,h)
    for a,b,tag in ((v,tv,"c1"),(v2,tv2,"c2")):
        if abs(a-b) > 1e-4*max(1,b):
            bad+=1
            if bad<12: print("MISMATCH",tag, r1,r2,h,a,b)
print("bad", bad)
# two-sphere
def true_ss(r1,r2,d,n=200001):
    lo, hi = max(-r1, d-r2), min(r1, d+r2)
    if hi<=lo: return 0.
    z=np.linspace(lo,hi,n)
    rho2=np.minimum(np.maximum(r1*r1-z*z,0), np.maximum(r2*r2-(z-d)**2,0))
    return np.pi*integrate.simpson(rho2,x=z)
bad=0
for k in range(300):
    r1 = rng.uniform(0.2,3); r2 = rng.uniform(0.2,3); d = rng.uniform(0,6)
    v = VolSphere([0,0,0],r1).intersect(VolSphere([0,0,d],r2)).get_volume(); tv=true_ss(r1,r2,d)
    if abs(v-tv)>1e-4*max(1,tv):
        bad+=1; print("SS MISMATCH", r1,r2,d,v,tv)
print("bad ss", bad)
for (r1,r2,d) in [(1,1,2),(1,1,0),(2,1,1),(2,1,0.5),(1,2,1),(1,1,2.0000001)]:
    print(r1,r2,d, VolSphere([0,0,0],r1).intersect(VolSphere([0,0,d],r2)).get_volume(), true_ss(r1,r2,d))
# chain volumes
def chain_true(xs, rs, n=400001):
    lo = min(x-r for x,r in zip(xs,rs)); hi = max(x+r for x,r in zip(xs,rs))
    z = np.linspace(lo,hi,n); rho = np.zeros_like(z)
    for x,r in zip(xs,rs):
        rho = np.maximum(rho, np.sqrt(np.maximum(r*r-(z-x)**2,0)))
    for (x1,r1),(x2,r2) in zip(zip(xs,rs), zip(xs[1:],rs[1:])):
        m = (z>=min(x1,x2))&(z<=max(x1,x2))
        rf = r1+(r2-r1)*(z-x1)/(x2-x1)
        rho = np.where(m, np.maximum(rho, rf), rho)
    return np.pi*integrate.simpson(rho**2,x=z)
for xs, rs in [([0,2,4],[1,1,1]), ([0,1.5,3],[1,1,1]), ([0,2,4.5],[1,1.5,0.7]), ([0,1.2,2.4,4],[1,0.8,1.2,0.5])]:
    txt = "".join(f"{i+1} 1 {x} 0 0 {r} {i if i>0 else -1}\n" for i,(x,r) in enumerate(zip(xs,rs)))
    t = T(txt)
    print(xs, rs, [round(get_volume(t, accuracy=a),5) for a in (1,2,3,4)], round(chain_true(xs,rs),5))
