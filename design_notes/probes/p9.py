import numpy as np, io, warnings, traceback, os, tempfile, shutil
warnings.simplefilter("ignore")
import pandas as pd
from swcgeom.core import Tree, BranchTree, Branch, Population
from swcgeom.core import swc_utils
from swcgeom.core.swc_utils import traverse, read_swc
from swcgeom.transforms import *
from swcgeom.analysis import *
def T(txt, **kw): return Tree.from_swc(io.StringIO(txt), **kw)
def show(t): 
    return list(zip(t.id().tolist(), t.type().tolist(), t.x().tolist(), t.pid().tolist()))
def attempt(name, f):
    try:
        r = f(); print(name, "->", r)
    except Exception as e:
        print(name, "-> EXC", type(e).__name__, e); traceback.print_exc(limit=4)
t = T("1 1 0 0 0 1 -1\n2 3 1 0 0 1 1\n3 3 2 0 0 1 2\n4 3 3 1 0 1 3\n5 4 3 -1 0 1 3\n6 2 -1 0 0 1 1\n7 2 -2 0 0 1 6\n")
log=[]
attempt("node traverse", lambda: (t.node(1).traverse(enter=lambda n,p: (log.append(("E",int(n.id),p)), int(n.id))[1], leave=lambda n,c: (log.append(("L",int(n.id),tuple(c))), int(n.id)*10)[1]), log))
# non-sorted numbering traverse
ids=np.array([0,1,2,3,4]); pids=np.array([-1,3,0,0,3])
log=[]
attempt("traverse unsorted", lambda: (traverse((ids,pids), enter=lambda n,p: (log.append(("E",int(n),p)), int(n))[1], leave=lambda n,c: (log.append(("L",int(n),tuple(c))), int(n)*10)[1]), log))
# extra cols sort
e = "3 3 2 0 0 1 2 0.5\n2 3 1 0 0 1 10 0.25\n10 1 0 0 0 1 -1 0.125\n7 3 9 0 0 1 10 0.75\n"
attempt("sort extra", lambda: read_swc(io.StringIO(e), extra_cols=["w"], sort_nodes=True)[0].values.tolist())
attempt("extra ignored", lambda: read_swc(io.StringIO(e))[0].values.tolist())
df = pd.DataFrame({'id':[5,9,7],'type':[1,3,3],'x':[0.,1,2],'y':[0.,0,0],'z':[0.,0,0],'r':[1.,1,1],'pid':[-1,5,9],'foo':[1,2,3]})
attempt("sort_nodes df", lambda: swc_utils.sort_nodes(df).values.tolist())
attempt("df unchanged", lambda: df.values.tolist())
# tree with extra ndata key sorted
t2 = Tree(3, id=np.array([0,1,2]), pid=np.array([-1,0,0]), x=np.array([0,1,2.]), foo=np.array([7,8,9]))
from swcgeom.core import sort_tree, get_subtree, to_subtree, cut_tree
attempt("sort_tree extra", lambda: (show(sort_tree(t2)), sort_tree(t2).ndata['foo'].tolist()))
d={}
attempt("subtree dict map", lambda: (show(get_subtree(t, 2, out_mapping=d)), d))
attempt("to_subtree root", lambda: show(to_subtree(t, [0])))
attempt("cut enter", lambda: show(cut_tree(t, enter=lambda n,p: (0, n.type==2))))
attempt("cut leave", lambda: show(cut_tree(t, leave=lambda n,c: (0, n.id==2))))
# resamplers
br = Branch.from_xyzr(np.array([[0,0,0,1],[1,0,0,2],[1,0,0,2],[3,0,0,4.]],dtype=np.float32))
attempt("linear", lambda: BranchLinearResampler(5)(br).xyzr().tolist())
attempt("iso", lambda: BranchIsometricResampler(0.7)(br).xyzr().tolist())
attempt("iso noadjust", lambda: BranchIsometricResampler(0.7, adjust_last_gap=False)(br).xyzr().tolist())
attempt("iso zero len", lambda: BranchIsometricResampler(0.7)(Branch.from_xyzr(np.array([[1,1,1,1],[1,1,1,2.]],dtype=np.float32))).xyzr().tolist())
attempt("smooth", lambda: BranchConvSmoother(3)(Branch.from_xyzr(np.array([[0,0,0,1],[1,1,0,2],[2,0,0,2],[3,1,0,4.],[4,0,0,1]],dtype=np.float32))).xyzr().tolist())
# population features
d_ = tempfile.mkdtemp()
open(os.path.join(d_,"a.swc"),"w").write("1 1 0 0 0 1 -1\n2 3 1 0 0 1 1\n3 3 2 0 0 1 1\n")
open(os.path.join(d_,"b.swc"),"w").write("1 1 0 0 0 1 -1\n2 3 1 0 0 1 1\n3 3 2 0 0 1 1\n4 3 5 0 0 1 1\n")
p = Population.from_swc(d_)
attempt("pop feat", lambda: extract_feature(p).get("tip_radial_distance").tolist())
attempt("pop len", lambda: extract_feature(p).get("length").tolist())
attempt("pop idx oob", lambda: p[2])
attempt("pop idx -3", lambda: p[-3])
shutil.rmtree(d_)
